(* C10 — property theorems only (PARTIAL: see the excluded shapes). *)
From Coq Require Import List Bool.
From IV Require Import C10.Defs C10.Proofs.
Import ListNotations.

(* For every class table inside the fragment — any depth and width of non-virtual inheritance with any access, any mix of
   scalar / reference / class-typed / static members, user-declared default, copy, other and move constructors with any access
   and =delete, virtual and pure functions overridden or not — interrogate's judgement (abstract, polymorphic, default-,
   copy-constructible, destructible) of every class equals the C++ rules. *)
Theorem c10_traits_agree_partial : forall cs, forallb class_frag cs = true ->
  map traits_of (analyze Impl cs) = map traits_of (analyze Cxx cs).
Proof. exact traits_agree. Qed.
Print Assumptions c10_traits_agree_partial.

(* never a constructor for an abstract class *)
Theorem c10_abstract_ctor : forall s c, s_abstract s = true -> exports_default_ctor s c = false /\ exports_copy_ctor s c = false.
Proof. exact abstract_no_ctor. Qed.
Print Assumptions c10_abstract_ctor.

(* the excluded shapes are real differences (recorded findings, replayed with g++ type traits as oracle) *)
Theorem c10_const_member_refuted :
  let cs := [mk [] [{| f_ty := FConstScalar; f_init := false; f_static := false |}] [] None None false false false None] in
  map traits_of (analyze Impl cs) <> map traits_of (analyze Cxx cs).
Proof. exact const_member_refuted. Qed.
Print Assumptions c10_const_member_refuted.

Theorem c10_deleted_dtor_refuted :
  let cs := [mk [] [] [] (Some {| sp_access := Public; sp_deleted := false |}) None false false false (Some ({| sp_access := Public; sp_deleted := true |}, false))] in
  map traits_of (analyze Impl cs) <> map traits_of (analyze Cxx cs).
Proof. exact deleted_dtor_refuted. Qed.
Print Assumptions c10_deleted_dtor_refuted.

Theorem c10_nonconst_copy_refuted :
  let cs := [mk [] [] [] None (Some {| sp_access := Public; sp_deleted := false |}) true false false None] in
  map traits_of (analyze Impl cs) <> map traits_of (analyze Cxx cs).
Proof. exact nonconst_copy_refuted. Qed.
Print Assumptions c10_nonconst_copy_refuted.

(* a pure virtual destructor inherited by a class that declares no destructor does not make that class abstract (its implicit
   destructor overrides it); the pinned get_pure_virtual_funcs reported such a class abstract (repaired) *)
Theorem c10_inherited_pure_dtor_pinned_refuted :
  exists cs i, forallb class_frag cs = true /\
    abstract_pinned (s_vfuncs (lookup (analyze Impl cs) i)) = true /\ s_abstract (lookup (analyze Cxx cs) i) = false.
Proof. exact inherited_pure_dtor_pinned_refuted. Qed.
Print Assumptions c10_inherited_pure_dtor_pinned_refuted.

(* the repair only removes classes from the abstract ones: whatever is abstract now has a pure entry in its list *)
Theorem c10_abstract_has_pure_entry : forall md env c,
  s_abstract (analyze1 md env c) = true -> abstract_pinned (s_vfuncs (analyze1 md env c)) = true.
Proof. exact abstract_implies_pinned. Qed.
Print Assumptions c10_abstract_has_pure_entry.
