From Coq Require Import ExtrOcamlBasic ExtrOcamlString List Bool Arith.
From IV Require Import C02.Defs C02.ArityDefs C02.ConstDefs.
(* the hierarchy as association lists *)
Definition depth_of (t : list (nat * nat)) (c : nat) : nat := match find (fun x => Nat.eqb (fst x) c) t with Some x => snd x | None => 0 end.
Definition base_of (t : list (nat * nat)) (b d : nat) : bool := existsb (fun x => Nat.eqb (fst x) b && Nat.eqb (snd x) d) t.
Definition run (depths : list (nat * nat)) (bases : list (nat * nat)) (overloads : list (list pkind)) (args : list arg) : option (list pkind) :=
  dispatch (base_of bases) (sort (depth_of depths) overloads) args.
Extraction Language OCaml.
Definition arity_labels (rs : list remap) : list (nat * nat * list nat) := labels (table rs).
Definition crun (depths : list (nat * nat)) (bases : list (nat * nat)) (overloads : list ov) (this_const : bool) (args : list arg) : option ov :=
  cdispatch (base_of bases) this_const (csort (depth_of depths) overloads) args.
Extraction "ext.ml" run arity_labels crun.
