(* C02 — the arity table of a python-native function wrapper.
   write_function_for_name puts every legal remap (an overload with its range of accepted argument counts, min..max because of trailing
   default arguments) into map_sets[i] for every i in min..max, collapse_default_remaps merges the run of top entries that form a chain of
   supersets into one entry, and the generated switch sends parameter_count to the entry whose case labels contain it; inside an entry every
   remap is tried and accepts only argument counts of its own range (its PyArg_Parse format).  No proofs in this file. *)
From Coq Require Import List Bool Arith.
Import ListNotations.

Record remap := { r_id : nat; r_min : nat; r_max : nat }.
Definition covers (a : nat) (r : remap) : bool := Nat.leb (r_min r) a && Nat.leb a (r_max r).

(* map_sets[a]: the remaps that take a arguments (in declaration order; the code holds them in a std::set) *)
Definition set_at (rs : list remap) (a : nat) : list remap := filter (covers a) rs.

Definition top (rs : list remap) : nat := fold_right (fun r m => Nat.max (r_max r) m) 0 rs.

(* the map, highest arity first (the code walks it with reverse iterators); keys = arities that some remap takes *)
Fixpoint entries_from (rs : list remap) (n : nat) : list (nat * list remap) :=
  let here := match set_at rs n with [] => [] | s => [(n, s)] end in
  match n with 0 => here | S n' => here ++ entries_from rs n' end.
Definition map_sets (rs : list remap) : list (nat * list remap) := entries_from rs (top rs).

Definition mem (r : remap) (s : list remap) : bool := existsb (fun x => Nat.eqb (r_id x) (r_id r)) s.
(* std::includes(big, small) *)
Definition includes (big small : list remap) : bool := forallb (fun r => mem r big) small.

(* the loop of collapse_default_remaps: walk down while the next lower entry is a superset of the current one *)
Fixpoint absorb (key : nat) (cur : list remap) (rest : list (nat * list remap)) : nat * list remap * list (nat * list remap) :=
  match rest with
  | (k, s) :: rest' => if includes s cur then absorb k s rest' else (key, cur, rest)
  | [] => (key, cur, [])
  end.

(* returns the new map (highest first) and max_required_args *)
Definition collapse (ms : list (nat * list remap)) (mra : nat) : list (nat * list remap) * nat :=
  match ms with
  | [] => ([], mra)
  | (n, sn) :: rest =>
      let '(k, sk, rest') := absorb n sn rest in
      if Nat.eqb k n then (ms, mra) else ((n, sk) :: rest', k)
  end.
(* the seeded mistake: the assignment the other way round keeps the top entry's own set *)
Definition collapse_wrong (ms : list (nat * list remap)) (mra : nat) : list (nat * list remap) * nat :=
  match ms with
  | [] => ([], mra)
  | (n, sn) :: rest =>
      let '(k, sk, rest') := absorb n sn rest in
      if Nat.eqb k n then (ms, mra) else ((n, sn) :: rest', k)
  end.

(* the switch: entry (max_args, set) answers the counts min(max_required_args, max_args) .. max_args *)
Definition entry_for (tbl : list (nat * list remap) * nat) (a : nat) : option (list remap) :=
  match find (fun e => Nat.leb (Nat.min (snd tbl) (fst e)) a && Nat.leb a (fst e)) (fst tbl) with
  | Some e => Some (snd e) | None => None end.

(* the remaps that can run for a call with a arguments *)
Definition candidates (tbl : list (nat * list remap) * nat) (a : nat) : list remap :=
  match entry_for tbl a with Some s => filter (covers a) s | None => [] end.

Definition table (rs : list remap) : list (nat * list remap) * nat := collapse (map_sets rs) (top rs).
Definition table_wrong (rs : list remap) : list (nat * list remap) * nat := collapse_wrong (map_sets rs) (top rs).

Definition wf (rs : list remap) : bool := forallb (fun r => Nat.leb (r_min r) (r_max r)) rs.

(* the case labels of every entry, lowest entry first, as the generated switch lists them *)
Definition labels (tbl : list (nat * list remap) * nat) : list (nat * nat * list nat) :=
  map (fun e => (Nat.min (snd tbl) (fst e), fst e, map r_id (snd e))) (rev (fst tbl)).
