(* C02 — overload dispatch of the python-native back-end.
   The generated code sorts the overloads of one arity with RemapCompareLess (parameter by parameter, higher get_type_sort first) and
   tries them in that order; the first one whose parameter extraction accepts the Python arguments runs.
   No proofs in this file. *)
From Coq Require Import List Bool Arith.
Import ListNotations.

(* parameter kinds as get_type_sort and the extraction code distinguish them *)
Inductive pkind :=
| PULongLong | PLongLong | PInt          (* integer types: rank 7, 6, 5 *)
| PDouble | PFloat                       (* rank 4, 3 *)
| PString | PCharPtr                     (* rank 9, 8 *)
| PBool                                  (* rank 1: extracted with PyObject_IsTrue, accepts anything *)
| PClass (c : nat).                      (* pointer/reference/value of class c: rank 20 + depth *)

(* Python argument categories *)
Inductive arg := AInt | AFloat | AStr | ABool | AInst (c : nat).

Inductive cat := CInt | CFloat | CStr | CBool | CClass (c : nat).
Definition cat_of (p : pkind) : cat :=
  match p with PULongLong | PLongLong | PInt => CInt | PDouble | PFloat => CFloat | PString | PCharPtr => CStr | PBool => CBool | PClass c => CClass c end.

Section Hierarchy.
  Variable depth : nat -> nat.               (* get_type_sort of a class minus 20: 0 for a root, 1 + deepest base otherwise *)
  Variable is_base : nat -> nat -> bool.     (* is_base b d: b is a (direct or indirect) base of d, b <> d *)

  Definition rank (p : pkind) : nat :=
    match p with
    | PULongLong => 7 | PLongLong => 6 | PInt => 5 | PDouble => 4 | PFloat => 3 | PString => 9 | PCharPtr => 8 | PBool => 1
    | PClass c => 20 + depth c
    end.

  (* does the extraction code for a parameter of this kind accept the argument (first pass, no coercion)? *)
  Definition accepts (p : pkind) (a : arg) : bool :=
    match p, a with
    | (PULongLong | PLongLong | PInt), (AInt | ABool) => true          (* PyLong_Check: bool is a subclass of int *)
    | (PDouble | PFloat), (AFloat | AInt | ABool) => true              (* the 'd'/'f' formats take any real number *)
    | (PString | PCharPtr), AStr => true
    | PBool, _ => true
    | PClass c, AInst d => Nat.eqb c d || is_base c d
    | _, _ => false
    end.

  (* the argument corresponds exactly to the parameter type: the correspondences the property lists (int -> integer types, float -> floating
     types, str -> string types, instance -> its class); bool arguments are not among them *)
  Definition exact (p : pkind) (a : arg) : bool :=
    match p, a with
    | (PULongLong | PLongLong | PInt), AInt => true
    | (PDouble | PFloat), AFloat => true
    | (PString | PCharPtr), AStr => true
    | PClass c, AInst d => Nat.eqb c d
    | _, _ => false
    end.

  Fixpoint all2 {A B} (f : A -> B -> bool) (l : list A) (m : list B) : bool :=
    match l, m with [], [] => true | x :: l', y :: m' => f x y && all2 f l' m' | _, _ => false end.

  (* RemapCompareLess on two overloads of the same arity: o1 is tried before o2 *)
  Fixpoint before (o1 o2 : list pkind) : bool :=
    match o1, o2 with
    | p :: r1, q :: r2 => if Nat.eqb (rank p) (rank q) then before r1 r2 else Nat.ltb (rank q) (rank p)
    | _, _ => false
    end.

  (* the dispatcher: first overload in the (already sorted) list that accepts the arguments *)
  Definition dispatch (sorted : list (list pkind)) (args : list arg) : option (list pkind) := find (fun o => all2 accepts o args) sorted.

  (* insertion sort by [before], as a stand-in for std::sort with RemapCompareLess (any stable or unstable sort yields a list in which no later element is strictly before an earlier one) *)
  Fixpoint insert (o : list pkind) (l : list (list pkind)) : list (list pkind) :=
    match l with [] => [o] | x :: r => if before x o then x :: insert o r else o :: x :: r end.
  Definition sort (l : list (list pkind)) : list (list pkind) := fold_right insert [] l.
End Hierarchy.
