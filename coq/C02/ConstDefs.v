(* C02 — const and non-const member functions in one overload set.
   RemapCompareLess in full: non-const methods first, then more parameters first, then parameter by parameter by get_type_sort rank;
   the emitted code skips a non-const method when the object is const.  No proofs in this file. *)
From Coq Require Import List Bool Arith.
From IV Require Import C02.Defs.
Import ListNotations.

Record ov := { o_const : bool; o_params : list pkind }.

Section Hierarchy.
  Variable depth : nat -> nat.
  Variable is_base : nat -> nat -> bool.

  (* RemapCompareLess(x, y): x is tried before y *)
  Definition cbefore (x y : ov) : bool :=
    if Bool.eqb (o_const x) (o_const y) then
      if Nat.eqb (length (o_params x)) (length (o_params y)) then before depth (o_params x) (o_params y)
      else Nat.ltb (length (o_params y)) (length (o_params x))
    else o_const y.
  (* the seeded mistake: const methods first *)
  Definition cbefore_wrong (x y : ov) : bool :=
    if Bool.eqb (o_const x) (o_const y) then
      if Nat.eqb (length (o_params x)) (length (o_params y)) then before depth (o_params x) (o_params y)
      else Nat.ltb (length (o_params y)) (length (o_params x))
    else o_const x.

  (* the guard DtoolInstance_IS_CONST(self) in front of a non-const method, then the parameter extraction *)
  Definition caccepts (this_const : bool) (o : ov) (args : list arg) : bool :=
    (negb this_const || o_const o) && all2 (accepts is_base) (o_params o) args.

  Definition cdispatch (this_const : bool) (sorted : list ov) (args : list arg) : option ov := find (fun o => caccepts this_const o args) sorted.

  Section Sort.
    Variable lt : ov -> ov -> bool.
    Fixpoint cinsert (o : ov) (l : list ov) : list ov :=
      match l with [] => [o] | x :: r => if lt x o then x :: cinsert o r else o :: x :: r end.
    Definition csort_by (l : list ov) : list ov := fold_right cinsert [] l.
  End Sort.
  Definition csort := csort_by cbefore.
  Definition csort_wrong := csort_by cbefore_wrong.
End Hierarchy.
