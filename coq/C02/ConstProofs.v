From Coq Require Import List Bool Arith Lia Sorted.
Import ListNotations.
From IV Require Import C02.Defs C02.Proofs C02.ConstDefs.

Section ConstDispatch.
  Variable depth : nat -> nat.
  Variable is_base : nat -> nat -> bool.
  Hypothesis base_is_shallower : forall b d, is_base b d = true -> depth b < depth d.

  Notation before := (before depth).
  Notation cbefore := (cbefore depth).
  Notation accepts := (accepts is_base).

  Definition ctried_in_order (l : list ov) : Prop := StronglySorted (fun x y => cbefore y x = false) l.

  Lemma all2_length {A B} (f : A -> B -> bool) l : forall m, all2 f l m = true -> length l = length m.
  Proof.
    induction l as [|x r IH]; intros [|y m] H; cbn in *; try discriminate; [reflexivity|].
    apply andb_true_iff in H. destruct H as [_ H]. f_equal. now apply IH.
  Qed.

  (* MAIN: the object's constness and the arguments select what C++ selects.  o is the member whose parameters correspond exactly to the
     arguments and that can be called on the object; when o is const and the object is not, no non-const member accepts the arguments
     (otherwise the C++ call would prefer it or be ambiguous).  Then the generated code runs o. *)
  Theorem cdispatch_exact : forall this_const l o args,
    ctried_in_order l -> In o l ->
    all2 (@exact) (o_params o) args = true ->
    (negb this_const || o_const o = true) ->
    (forall o', In o' l -> Forall2 (consistent depth) (o_params o') (o_params o)) ->
    (forall o', In o' l -> o_const o' = o_const o -> map cat_of (o_params o') = map cat_of (o_params o) -> o' = o) ->
    (o_const o = true -> forall o', In o' l -> o_const o' = false -> caccepts is_base this_const o' args = false) ->
    cdispatch is_base this_const l args = Some o.
  Proof.
    induction l as [|x r IH]; intros o args Hs Hin He Hv Hcons Hdist Hpref; [contradiction|].
    unfold cdispatch. cbn [find].
    apply StronglySorted_inv in Hs. destruct Hs as [Hs' Hall].
    destruct (caccepts is_base this_const x args) eqn:Ea.
    - f_equal. destruct Hin as [->|Hin]; [reflexivity|].
      rewrite Forall_forall in Hall. specialize (Hall o Hin). unfold ConstDefs.cbefore in Hall.
      unfold caccepts in Ea. apply andb_true_iff in Ea. destruct Ea as [Eg Ea].
      destruct (o_const x) eqn:Cx, (o_const o) eqn:Co; cbn [Bool.eqb] in Hall; try discriminate.
      + (* both const *)
        assert (L : length (o_params o) = length (o_params x)).
        { rewrite (all2_length _ _ _ He), (all2_length _ _ _ Ea). reflexivity. }
        rewrite L, Nat.eqb_refl in Hall.
        destruct (accepted_rival depth is_base base_is_shallower (o_params o) (o_params x) args He Ea (Hcons x (or_introl eq_refl))) as [_ R2].
        apply Hdist; [left; reflexivity | congruence | apply R2; exact Hall].
      + (* x is not const, o is: excluded by the C++ preference hypothesis *)
        assert (F : caccepts is_base this_const x args = false) by (apply (Hpref eq_refl); [left; reflexivity | exact Cx]).
        unfold caccepts in F. rewrite Cx, Ea in F. rewrite Eg in F. discriminate.
      + (* both non-const *)
        assert (L : length (o_params o) = length (o_params x)).
        { rewrite (all2_length _ _ _ He), (all2_length _ _ _ Ea). reflexivity. }
        rewrite L, Nat.eqb_refl in Hall.
        destruct (accepted_rival depth is_base base_is_shallower (o_params o) (o_params x) args He Ea (Hcons x (or_introl eq_refl))) as [_ R2].
        apply Hdist; [left; reflexivity | congruence | apply R2; exact Hall].
    - destruct Hin as [->|Hin].
      + unfold caccepts in Ea. rewrite (all2_exact_accepts is_base (o_params o) args He), andb_true_r in Ea.
        rewrite Hv in Ea. discriminate.
      + apply IH; auto.
        * intros o' Ho'. apply Hcons. right. exact Ho'.
        * intros o' Ho'. apply Hdist. right. exact Ho'.
        * intros Co o' Ho'. apply (Hpref Co). right. exact Ho'.
  Qed.

  (* ---- sorting with the full RemapCompareLess gives such an order, for overloads of any mix of arities and constness *)
  Lemma cbefore_asym x y : cbefore x y = true -> cbefore y x = false.
  Proof.
    unfold ConstDefs.cbefore. destruct (o_const x), (o_const y); cbn [Bool.eqb]; try discriminate; try reflexivity;
      (rewrite (Nat.eqb_sym (length (o_params y))); destruct (Nat.eqb (length (o_params x)) (length (o_params y))) eqn:E;
       [apply before_asym | intros H; apply Nat.ltb_lt in H; apply Nat.ltb_ge; lia]).
  Qed.

  Lemma cbefore_negtrans x y z : cbefore y x = false -> cbefore z y = false -> cbefore z x = false.
  Proof.
    unfold ConstDefs.cbefore.
    destruct (o_const x), (o_const y), (o_const z); cbn [Bool.eqb]; try discriminate; try reflexivity;
      (destruct (Nat.eqb (length (o_params y)) (length (o_params x))) eqn:E1;
       destruct (Nat.eqb (length (o_params z)) (length (o_params y))) eqn:E2;
       [ apply Nat.eqb_eq in E1; apply Nat.eqb_eq in E2;
         assert (E3 : Nat.eqb (length (o_params z)) (length (o_params x)) = true) by (apply Nat.eqb_eq; lia); rewrite E3;
         apply before_negtrans; lia
       | apply Nat.eqb_eq in E1; apply Nat.eqb_neq in E2; intros _ H2; apply Nat.ltb_ge in H2;
         assert (E3 : Nat.eqb (length (o_params z)) (length (o_params x)) = false) by (apply Nat.eqb_neq; lia); rewrite E3; apply Nat.ltb_ge; lia
       | apply Nat.eqb_neq in E1; apply Nat.eqb_eq in E2; intros H1 _; apply Nat.ltb_ge in H1;
         assert (E3 : Nat.eqb (length (o_params z)) (length (o_params x)) = false) by (apply Nat.eqb_neq; lia); rewrite E3; apply Nat.ltb_ge; lia
       | apply Nat.eqb_neq in E1; apply Nat.eqb_neq in E2; intros H1 H2; apply Nat.ltb_ge in H1; apply Nat.ltb_ge in H2;
         destruct (Nat.eqb (length (o_params z)) (length (o_params x))) eqn:E3; [apply Nat.eqb_eq in E3; lia | apply Nat.ltb_ge; lia] ]).
  Qed.

  Lemma cinsert_in o l x : In x (cinsert cbefore o l) <-> x = o \/ In x l.
  Proof.
    induction l as [|y r IH]; cbn; [intuition|].
    destruct (cbefore y o); cbn; rewrite ?IH; intuition.
  Qed.

  Lemma cinsert_sorted o l : ctried_in_order l -> ctried_in_order (cinsert cbefore o l).
  Proof.
    intros Hs. induction l as [|y r IH]; cbn.
    - constructor; constructor.
    - apply StronglySorted_inv in Hs. destruct Hs as [Hs' Hall].
      destruct (cbefore y o) eqn:E.
      + constructor; [apply IH; assumption|].
        rewrite Forall_forall. intros x Hx. apply cinsert_in in Hx. destruct Hx as [->|Hx].
        * apply cbefore_asym. exact E.
        * rewrite Forall_forall in Hall. apply Hall. exact Hx.
      + constructor; [constructor; assumption|]. constructor; [exact E|].
        rewrite Forall_forall. intros x Hx. rewrite Forall_forall in Hall.
        apply (cbefore_negtrans o y x); [exact E | apply Hall; exact Hx].
  Qed.

  Lemma csort_in l x : In x (csort depth l) <-> In x l.
  Proof. unfold csort, csort_by. induction l as [|o r IH]; cbn; [reflexivity|]. rewrite cinsert_in, IH. intuition. Qed.

  Theorem csort_tried_in_order l : ctried_in_order (csort depth l).
  Proof. unfold csort, csort_by. induction l as [|o r IH]; cbn; [constructor|]. apply cinsert_sorted. exact IH. Qed.
End ConstDispatch.

(* the pair  int which();  int which() const;  the non-const object runs the first, the const object the second;
   with const methods sorted first (the seeded mistake) the non-const object runs the const member *)
Example const_pair :
  let depth := fun _ : nat => 0 in let is_base := fun _ _ : nat => false in
  let nc := {| o_const := false; o_params := [PInt] |} in let c := {| o_const := true; o_params := [PInt] |} in
  cdispatch is_base false (csort depth [c; nc]) [AInt] = Some nc /\
  cdispatch is_base true (csort depth [c; nc]) [AInt] = Some c /\
  cdispatch is_base false (csort_wrong depth [c; nc]) [AInt] = Some c.
Proof. repeat split; reflexivity. Qed.
