From Coq Require Import List Bool Arith Lia Sorted.
Import ListNotations.
From IV Require Import C02.Defs.

Section Dispatch.
  Variable depth : nat -> nat.
  Variable is_base : nat -> nat -> bool.
  Hypothesis base_is_shallower : forall b d, is_base b d = true -> depth b < depth d.

  Notation rank := (rank depth).
  Notation accepts := (accepts is_base).
  Notation before := (before depth).

  (* the set uses one C++ type per Python category: e.g. not both int and long long, not both float and double *)
  Definition consistent (p q : pkind) : Prop := cat_of p = cat_of q -> rank p = rank q.

  Lemma exact_accepts p a : exact p a = true -> accepts p a = true.
  Proof. destruct p, a; cbn; try discriminate; try reflexivity. intros H. now rewrite H. Qed.

  Lemma accepting_never_outranks p p' a : exact p a = true -> accepts p' a = true -> consistent p' p -> rank p' <= rank p.
  Proof.
    intros He Ha Hc. unfold consistent in Hc.
    destruct p, a; cbn in He; try discriminate; destruct p'; cbn in Ha; try discriminate; cbn [Defs.rank]; try lia;
      try (specialize (Hc eq_refl); cbn [Defs.rank] in Hc; lia).
    apply Nat.eqb_eq in He. subst. apply orb_true_iff in Ha. destruct Ha as [Ha|Ha].
    - apply Nat.eqb_eq in Ha. subst. lia.
    - apply base_is_shallower in Ha. lia.
  Qed.

  Lemma equal_rank_same_category p p' a : exact p a = true -> accepts p' a = true -> rank p' = rank p -> cat_of p' = cat_of p.
  Proof.
    intros He Ha Hr.
    destruct p, a; cbn in He; try discriminate; destruct p'; cbn in Ha; try discriminate; cbn [Defs.rank] in Hr; try lia; try reflexivity.
    apply Nat.eqb_eq in He. subst. apply orb_true_iff in Ha. destruct Ha as [Ha|Ha].
    - apply Nat.eqb_eq in Ha. subst. reflexivity.
    - apply base_is_shallower in Ha. lia.
  Qed.

  (* an overload that accepts arguments exactly matching o, position by position never outranks o, and with equal ranks has o's categories *)
  Lemma accepted_rival o : forall o' args,
    all2 (@exact) o args = true -> all2 accepts o' args = true ->
    Forall2 consistent o' o ->
    before o' o = false /\ (before o o' = false -> map cat_of o' = map cat_of o).
  Proof.
    induction o as [|p r IH]; intros o' args He Ha Hc.
    - destruct args; [|discriminate]. destruct o'; [|discriminate]. cbn. auto.
    - destruct args as [|a ar]; [discriminate|]. destruct o' as [|p' r']; [discriminate|].
      cbn [all2] in He, Ha. apply andb_true_iff in He. destruct He as [He1 He2]. apply andb_true_iff in Ha. destruct Ha as [Ha1 Ha2].
      inversion Hc as [|x y lx ly Hc1 Hc2]; subst.
      destruct (IH r' ar He2 Ha2 Hc2) as [I1 I2].
      pose proof (accepting_never_outranks p p' a He1 Ha1 Hc1) as Hle.
      cbn [Defs.before].
      destruct (Nat.eqb (rank p') (rank p)) eqn:E.
      + apply Nat.eqb_eq in E. split; [exact I1|].
        rewrite Nat.eqb_sym. assert (E' : Nat.eqb (rank p') (rank p) = true) by (apply Nat.eqb_eq; exact E). rewrite E'.
        intros Hb. cbn [map]. f_equal; [apply (equal_rank_same_category p p' a He1 Ha1 E)|apply I2; exact Hb].
      + apply Nat.eqb_neq in E. split.
        * apply Nat.ltb_ge. lia.
        * rewrite Nat.eqb_sym. assert (E' : Nat.eqb (rank p') (rank p) = false) by (apply Nat.eqb_neq; exact E). rewrite E'.
          intros Hb. apply Nat.ltb_ge in Hb. lia.
  Qed.

  (* the list the dispatcher walks: no later overload is strictly before an earlier one *)
  Definition tried_in_order (l : list (list pkind)) : Prop := StronglySorted (fun x y => before y x = false) l.

  Lemma all2_exact_accepts o : forall args, all2 (@exact) o args = true -> all2 accepts o args = true.
  Proof.
    induction o as [|p r IH]; intros [|a ar] H; cbn [all2] in *; try discriminate; [reflexivity|].
    apply andb_true_iff in H. destruct H as [H1 H2]. rewrite (exact_accepts p a H1), (IH ar H2). reflexivity.
  Qed.

  (* MAIN: in an overload set that uses one C++ type per category and whose members differ in category somewhere, a call whose arguments
     correspond exactly to overload o runs o *)
  Theorem dispatch_exact : forall l o args,
    tried_in_order l -> In o l ->
    all2 (@exact) o args = true ->
    (forall o', In o' l -> Forall2 consistent o' o) ->
    (forall o', In o' l -> map cat_of o' = map cat_of o -> o' = o) ->
    dispatch is_base l args = Some o.
  Proof.
    induction l as [|x r IH]; intros o args Hs Hin He Hcons Hdist; [contradiction|].
    unfold dispatch. cbn [find].
    apply StronglySorted_inv in Hs. destruct Hs as [Hs' Hall].
    destruct (all2 accepts x args) eqn:Ea.
    - f_equal. destruct Hin as [->|Hin]; [reflexivity|].
      destruct (accepted_rival o x args He Ea (Hcons x (or_introl eq_refl))) as [_ R2].
      apply Hdist; [left; reflexivity|]. apply R2.
      rewrite Forall_forall in Hall. apply Hall. exact Hin.
    - destruct Hin as [->|Hin].
      + rewrite (all2_exact_accepts o args He) in Ea. discriminate.
      + apply IH; auto.
        * intros o' Ho'. apply Hcons. right. exact Ho'.
        * intros o' Ho'. apply Hdist. right. exact Ho'.
  Qed.

  (* ---- the order produced by sorting with RemapCompareLess *)
  Lemma before_irrefl o : before o o = false.
  Proof. induction o as [|p r IH]; cbn; [reflexivity|]. rewrite Nat.eqb_refl. exact IH. Qed.

  Lemma before_asym : forall o1 o2, before o1 o2 = true -> before o2 o1 = false.
  Proof.
    induction o1 as [|p r1 IH]; intros [|q r2] H; cbn in *; try discriminate; try reflexivity.
    rewrite Nat.eqb_sym. destruct (Nat.eqb (rank p) (rank q)) eqn:E; [apply IH; exact H|].
    apply Nat.ltb_lt in H. apply Nat.ltb_ge. lia.
  Qed.

  (* negative transitivity on overloads of one arity *)
  Lemma before_negtrans : forall o1 o2 o3, length o1 = length o2 -> length o2 = length o3 ->
    before o2 o1 = false -> before o3 o2 = false -> before o3 o1 = false.
  Proof.
    induction o1 as [|p r1 IH]; intros [|q r2] [|s r3] L1 L2 H1 H2; cbn in *; try discriminate; try reflexivity.
    injection L1 as L1. injection L2 as L2.
    destruct (Nat.eqb (rank q) (rank p)) eqn:E1; destruct (Nat.eqb (rank s) (rank q)) eqn:E2.
    - apply Nat.eqb_eq in E1. apply Nat.eqb_eq in E2. assert (E3 : Nat.eqb (rank s) (rank p) = true) by (apply Nat.eqb_eq; lia). rewrite E3.
      exact (IH r2 r3 L1 L2 H1 H2).
    - apply Nat.eqb_eq in E1. apply Nat.eqb_neq in E2. apply Nat.ltb_ge in H2.
      assert (E3 : Nat.eqb (rank s) (rank p) = false) by (apply Nat.eqb_neq; lia). rewrite E3. apply Nat.ltb_ge. lia.
    - apply Nat.eqb_neq in E1. apply Nat.eqb_eq in E2. apply Nat.ltb_ge in H1.
      assert (E3 : Nat.eqb (rank s) (rank p) = false) by (apply Nat.eqb_neq; lia). rewrite E3. apply Nat.ltb_ge. lia.
    - apply Nat.eqb_neq in E1. apply Nat.eqb_neq in E2. apply Nat.ltb_ge in H1. apply Nat.ltb_ge in H2.
      destruct (Nat.eqb (rank s) (rank p)) eqn:E3; [apply Nat.eqb_eq in E3; lia|]. apply Nat.ltb_ge. lia.
  Qed.

  Lemma insert_in o l x : In x (insert depth o l) <-> x = o \/ In x l.
  Proof.
    induction l as [|y r IH]; cbn; [intuition|].
    destruct (before y o); cbn; rewrite ?IH; intuition.
  Qed.

  Lemma insert_sorted n o l : length o = n -> Forall (fun x => length x = n) l -> tried_in_order l -> tried_in_order (insert depth o l).
  Proof.
    intros Ho Hl Hs. induction l as [|y r IH]; cbn.
    - constructor; constructor.
    - apply StronglySorted_inv in Hs. destruct Hs as [Hs' Hall]. apply Forall_cons_iff in Hl. destruct Hl as [Hy Hr].
      destruct (before y o) eqn:E.
      + constructor; [apply IH; assumption|].
        rewrite Forall_forall. intros x Hx. apply insert_in in Hx. destruct Hx as [->|Hx].
        * apply before_asym. exact E.
        * rewrite Forall_forall in Hall. apply Hall. exact Hx.
      + constructor; [constructor; assumption|]. constructor; [exact E|].
        rewrite Forall_forall. intros x Hx. rewrite Forall_forall in Hall, Hr.
        apply (before_negtrans o y x); [rewrite Hy; exact Ho| rewrite Hy; symmetry; apply Hr; exact Hx|exact E|apply Hall; exact Hx].
  Qed.

  Lemma sort_in l x : In x (sort depth l) <-> In x l.
  Proof. induction l as [|o r IH]; cbn; [reflexivity|]. rewrite insert_in, IH. intuition. Qed.

  Theorem sort_tried_in_order n l : Forall (fun x => length x = n) l -> tried_in_order (sort depth l).
  Proof.
    induction l as [|o r IH]; intros H; cbn; [constructor|].
    apply Forall_cons_iff in H. destruct H as [Ho Hr].
    apply (insert_sorted n); [exact Ho| |apply IH; exact Hr].
    rewrite Forall_forall in *. intros x Hx. apply Hr. apply sort_in. exact Hx.
  Qed.
End Dispatch.

(* with two integer widths in one overload set the statement is false: f(int, int) / f(long long, double) called with (int, int) runs the second *)
Theorem mixed_width_refuted :
  let depth := fun _ : nat => 0 in let is_base := fun _ _ : nat => false in
  let o := [PInt; PInt] in let o' := [PLongLong; PDouble] in
  all2 (@exact) o [AInt; AInt] = true /\ dispatch is_base (sort depth [o; o']) [AInt; AInt] = Some o'.
Proof. split; reflexivity. Qed.

(* a bool argument is taken by an integer or floating overload before a bool overload is tried *)
Theorem bool_argument_refuted :
  let depth := fun _ : nat => 0 in let is_base := fun _ _ : nat => false in
  dispatch is_base (sort depth [[PBool]; [PInt]]) [ABool] = Some [PInt].
Proof. reflexivity. Qed.
