From Coq Require Import List Bool Arith Lia.
From IV Require Import C02.ArityDefs.
Import ListNotations.

Section Table.
Variable rs : list remap.
Hypothesis ids : NoDup (map r_id rs).

Definition entries_below (key : nat) : list (nat * list remap) :=
  match key with 0 => [] | S m => entries_from rs m end.

Lemma set_at_in a r : In r (set_at rs a) <-> In r rs /\ covers a r = true.
Proof. unfold set_at. apply filter_In. Qed.

Lemma set_at_empty a : set_at rs a = [] <-> forall r, In r rs -> covers a r = false.
Proof.
  split.
  - intros E r Hin. destruct (covers a r) eqn:C; [|reflexivity]. assert (H : In r (set_at rs a)) by (apply set_at_in; auto). rewrite E in H. destruct H.
  - intros H. unfold set_at. induction rs as [|x l IH]; cbn; [reflexivity|]. rewrite (H x (or_introl eq_refl)). apply IH.
    + inversion ids; assumption.
    + intros r Hr. apply H. now right.
Qed.

(* the shape of the map below a bound: its first entry is the highest arity that some remap takes *)
Lemma head_spec t :
  match entries_from rs t with
  | [] => forall a, a <= t -> set_at rs a = []
  | (n, sn) :: rest => n <= t /\ sn = set_at rs n /\ sn <> [] /\ rest = entries_below n /\ forall a, n < a <= t -> set_at rs a = []
  end.
Proof.
  induction t as [|t IH]; cbn [entries_from].
  - destruct (set_at rs 0) eqn:E; cbn.
    + intros a Ha. assert (a = 0) by lia. subst. exact E.
    + repeat split; try lia; try congruence.
  - destruct (set_at rs (S t)) eqn:E; cbn.
    + destruct (entries_from rs t) as [|[n sn] rest].
      * intros a Ha. destruct (Nat.eq_dec a (S t)); [subst; exact E | apply IH; lia].
      * destruct IH as (H1 & H2 & H3 & H4 & H5). repeat split; auto.
        intros a Ha. destruct (Nat.eq_dec a (S t)); [subst; exact E | apply H5; lia].
    + repeat split; try lia; try congruence.
Qed.

Lemma mem_in r s : mem r s = true -> In r rs -> (forall x, In x s -> In x rs) -> In r s.
Proof.
  unfold mem. rewrite existsb_exists. intros (x & Hx & E) Hr Hs. apply Nat.eqb_eq in E.
  assert (x = r); [|subst; exact Hx].
  specialize (Hs x Hx). clear Hx s.
  induction rs as [|y l IH]; [destruct Hr|]. cbn in ids. inversion ids as [|? ? Hn Hd]; subst.
  destruct Hr as [Hr|Hr], Hs as [Hs|Hs]; subst; auto.
  - exfalso. apply Hn. rewrite <- E. now apply in_map.
  - exfalso. apply Hn. rewrite E. now apply in_map.
Qed.

(* what the walk of collapse_default_remaps returns when started at an entry of the map *)
Lemma absorb_spec bound : forall key, key <= bound ->
  let '(k, sk, rest') := absorb key (set_at rs key) (entries_below key) in
  k <= key /\ sk = set_at rs k /\ rest' = entries_below k /\
  (forall a, k <= a <= key -> forall r, In r rs -> covers a r = true -> covers k r = true).
Proof.
  induction bound as [|bound IH]; intros key Hk.
  - assert (key = 0) by lia. subst. cbn. repeat split; auto. intros a Ha. assert (a = 0) by lia. subst. auto.
  - destruct key as [|m]; [cbn; repeat split; auto; intros a Ha; assert (a = 0) by lia; subst; auto|].
    cbn [entries_below]. pose proof (head_spec m) as HS.
    destruct (entries_from rs m) as [|[n sn] rest] eqn:EE.
    + cbn. repeat split; auto. intros a Ha. assert (a = S m) by lia. subst. auto.
    + destruct HS as (H1 & H2 & H3 & H4 & H5). cbn [absorb].
      destruct (includes sn (set_at rs (S m))) eqn:Inc.
      * subst sn rest. specialize (IH n ltac:(lia)).
        destruct (absorb n (set_at rs n) (entries_below n)) as [[k sk] rest'].
        destruct IH as (I1 & I2 & I3 & I4). repeat split; auto; try lia.
        intros a Ha r Hr Hc.
        destruct (Nat.le_gt_cases a n) as [Hle|Hgt]; [apply (I4 a); auto; lia|].
        destruct (Nat.eq_dec a (S m)) as [->|Hne].
        -- apply (I4 n); [lia | exact Hr |].
           unfold includes in Inc. rewrite forallb_forall in Inc.
           assert (Hin : In r (set_at rs (S m))) by (apply set_at_in; auto).
           specialize (Inc r Hin). apply mem_in in Inc; auto.
           ++ apply set_at_in in Inc. tauto.
           ++ intros x Hx. apply set_at_in in Hx. tauto.
        -- assert (E : set_at rs a = []) by (apply H5; lia).
           rewrite set_at_empty in E. rewrite (E r Hr) in Hc. discriminate.
      * rewrite <- EE. repeat split; auto. intros a Ha. assert (a = S m) by lia. subst. auto.
Qed.

Lemma filter_filter_covers a k :
  (forall r, In r rs -> covers a r = true -> covers k r = true) ->
  filter (covers a) (set_at rs k) = set_at rs a.
Proof.
  intros H. unfold set_at. clear ids. induction rs as [|x l IH]; cbn; [reflexivity|].
  destruct (covers k x) eqn:Ck; cbn.
  - destruct (covers a x); [f_equal|]; apply IH; intros r Hr; apply H; now right.
  - destruct (covers a x) eqn:Ca.
    + rewrite (H x (or_introl eq_refl) Ca) in Ck. discriminate.
    + apply IH. intros r Hr. apply H. now right.
Qed.

Lemma filter_idem a : filter (covers a) (set_at rs a) = set_at rs a.
Proof. apply filter_filter_covers. auto. Qed.

(* looking a count up among entries that each answer exactly their own arity *)
Lemma find_exact mra t a : (forall e, In e (entries_from rs t) -> fst e <= mra) ->
  match find (fun e => Nat.leb (Nat.min mra (fst e)) a && Nat.leb a (fst e)) (entries_from rs t) with
  | Some e => snd e = set_at rs a /\ a <= t
  | None => a <= t -> set_at rs a = []
  end.
Proof.
  induction t as [|t IH]; intros Hm; cbn [entries_from].
  - destruct (set_at rs 0) eqn:E; cbn.
    + intros Ha. assert (a = 0) by lia. subst. exact E.
    + rewrite Nat.min_0_r. cbn. destruct a; cbn; [split; auto | intros; lia].
  - destruct (set_at rs (S t)) eqn:E; cbn [app find fst].
    + cbn [entries_from] in Hm. rewrite E in Hm. cbn in Hm. specialize (IH Hm).
      destruct (find _ (entries_from rs t)) as [e|].
      * destruct IH. split; auto.
      * intros Ha. destruct (Nat.eq_dec a (S t)); [subst; exact E | apply IH; lia].
    + assert (Hle : S t <= mra). { apply (Hm (S t, r :: l)). cbn [entries_from]. rewrite E. now left. }
      rewrite (Nat.min_r _ _ Hle).
      destruct (Nat.leb (S t) a && Nat.leb a (S t)) eqn:B.
      * apply andb_true_iff in B as [B1 B2]. apply Nat.leb_le in B1, B2. assert (a = S t) by lia. subst. cbn. split; auto.
      * assert (Hm' : forall e, In e (entries_from rs t) -> fst e <= mra).
        { intros e He. apply Hm. cbn [entries_from]. rewrite E. right. exact He. }
        specialize (IH Hm'). destruct (find _ (entries_from rs t)) as [e|].
        -- destruct IH. split; auto.
        -- intros Ha. apply IH. apply andb_false_iff in B. destruct B as [B|B]; apply Nat.leb_gt in B; lia.
Qed.

Lemma entries_keys t e : In e (entries_from rs t) -> fst e <= t.
Proof.
  induction t as [|t IH]; cbn [entries_from]; destruct (set_at rs _); cbn; intros H.
  - destruct H.
  - destruct H as [<-|[]]. cbn. lia.
  - specialize (IH H). lia.
  - destruct H as [<-|H]; [cbn; lia | specialize (IH H); lia].
Qed.

Lemma above_top a : top rs < a -> set_at rs a = [].
Proof.
  intros H. apply set_at_empty. intros r Hr. unfold covers.
  assert (r_max r <= top rs).
  { clear ids H. unfold top. induction rs as [|x l IH]; [destruct Hr|]. cbn. destruct Hr as [->|Hr]; [lia | specialize (IH Hr); lia]. }
  apply andb_false_iff. right. apply Nat.leb_gt. lia.
Qed.

(* THE TABLE IS EXACT: for every argument count, the remaps the generated switch can run are exactly the remaps that take that count *)
Theorem table_candidates a : candidates (table rs) a = set_at rs a.
Proof.
  unfold table, map_sets, collapse. pose proof (head_spec (top rs)) as HS.
  destruct (entries_from rs (top rs)) as [|[n sn] rest] eqn:EE.
  - unfold candidates, entry_for. cbn. symmetry.
    destruct (Nat.le_gt_cases a (top rs)); [apply HS; auto | now apply above_top].
  - destruct HS as (H1 & H2 & H3 & H4 & H5). subst sn rest.
    pose proof (absorb_spec n n (le_n n)) as AS.
    destruct (absorb n (set_at rs n) (entries_below n)) as [[k sk] rest'].
    destruct AS as (A1 & A2 & A3 & A4). subst sk rest'.
    assert (Habove : n < a -> set_at rs a = []).
    { intros Hn. destruct (Nat.le_gt_cases a (top rs)); [apply H5; lia | now apply above_top]. }
    destruct (Nat.eqb k n) eqn:Ekn.
    + (* nothing absorbed: every entry answers its own arity *)
      rewrite <- EE. unfold candidates, entry_for. cbn [fst snd].
      pose proof (find_exact (top rs) (top rs) a (entries_keys (top rs))) as F.
      destruct (find _ (entries_from rs (top rs))) as [e|].
      * destruct F as [F _]. rewrite F. apply filter_idem.
      * symmetry. destruct (Nat.le_gt_cases a (top rs)); [now apply F | now apply above_top].
    + apply Nat.eqb_neq in Ekn. unfold candidates, entry_for. cbn [fst snd find].
      rewrite (Nat.min_l k n A1).
      destruct (Nat.leb k a && Nat.leb a n) eqn:B.
      * apply andb_true_iff in B as [B1 B2]. apply Nat.leb_le in B1, B2. cbn [snd].
        apply filter_filter_covers. intros r Hr Hc. apply (A4 a); auto.
      * destruct k as [|k']; [cbn in B; destruct (Nat.leb a n) eqn:B2; [discriminate|]; apply Nat.leb_gt in B2; cbn; symmetry; now apply Habove|].
        cbn [entries_below].
        pose proof (find_exact (S k') k' a) as F.
        assert (Hk : forall e, In e (entries_from rs k') -> fst e <= S k') by (intros e He; apply entries_keys in He; lia).
        specialize (F Hk). destruct (find _ (entries_from rs k')) as [e|].
        -- destruct F as [F _]. rewrite F. apply filter_idem.
        -- symmetry. apply andb_false_iff in B. destruct B as [B|B]; apply Nat.leb_gt in B.
           ++ apply F. lia.
           ++ apply Habove. lia.
Qed.
End Table.

(* the seeded mistake loses an overload: k(int a, int b = 1) and k(string s) called with one argument *)
Example table_wrong_refuted :
  let rs := [{| r_id := 0; r_min := 1; r_max := 2 |}; {| r_id := 1; r_min := 1; r_max := 1 |}] in
  NoDup (map r_id rs) /\ candidates (table_wrong rs) 1 <> set_at rs 1 /\ candidates (table rs) 1 = set_at rs 1.
Proof. cbn. split; [repeat constructor; cbn; intuition discriminate|]. split; [discriminate | reflexivity]. Qed.

(* non-vacuity: three arities collapse into one entry and a fourth stays apart *)
Example table_example :
  let rs := [{| r_id := 0; r_min := 1; r_max := 3 |}; {| r_id := 1; r_min := 1; r_max := 1 |}; {| r_id := 2; r_min := 0; r_max := 0 |}] in
  labels (table rs) = [(0, 0, [2]); (1, 3, [0; 1])].
Proof. reflexivity. Qed.
