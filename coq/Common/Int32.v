(* C `int` as used by the evaluator: 32-bit two's complement on Z. *)
From Coq Require Import ZArith Lia Bool.
Local Open Scope Z_scope.

Definition int_min : Z := -2147483648.
Definition int_max : Z := 2147483647.
Definition in_int (z : Z) : bool := (int_min <=? z) && (z <=? int_max).
Definition wrap32 (z : Z) : Z := (z + 2147483648) mod 4294967296 - 2147483648.

Lemma in_int_spec z : in_int z = true <-> int_min <= z <= int_max.
Proof. unfold in_int. rewrite andb_true_iff, !Z.leb_le. tauto. Qed.

Lemma wrap32_id z : in_int z = true -> wrap32 z = z.
Proof.
  rewrite in_int_spec. unfold int_min, int_max, wrap32. intros H.
  rewrite Z.mod_small by lia. lia.
Qed.

Lemma wrap32_in_int z : in_int (wrap32 z) = true.
Proof.
  apply in_int_spec. unfold wrap32, int_min, int_max.
  pose proof (Z.mod_pos_bound (z + 2147483648) 4294967296 ltac:(lia)). lia.
Qed.
