(* C12 — byte-level codec combinators modelling the istream/ostream based
   database reader and writer (interrogate_datafile), with the round-trip
   lemma for each combinator. *)
From Coq Require Import ZArith List Bool Ascii Lia.
From IV Require Import Common.Int32 C07.Defs C07.Proofs.
Import ListNotations.
Local Open Scope Z_scope.

Definition bytes := list ascii.

Definition code (c : ascii) : Z := Z.of_N (N_of_ascii c).
(* isspace() in the C locale: \t \n \v \f \r and space *)
Definition is_ws (c : ascii) : bool := let n := code c in ((9 <=? n) && (n <=? 13)) || (n =? 32).
Definition is_digit (c : ascii) : bool := let n := code c in (48 <=? n) && (n <=? 57).
Definition digit_char (d : Z) : ascii := ascii_of_N (Z.to_N (48 + d)).
Definition digit_val (c : ascii) : Z := code c - 48.

Fixpoint all_ws (s : bytes) : bool := match s with [] => true | c :: t => is_ws c && all_ws t end.
Fixpoint skip_ws (s : bytes) : bytes :=
  match s with c :: t => if is_ws c then skip_ws t else s | [] => [] end.

(* operator>>(int&): skip whitespace, optional sign, at least one digit; a value
   outside int sets failbit.  None = failbit.  The stream is left at the first
   non-digit. *)
Fixpoint read_digits (s : bytes) (acc : Z) (n : nat) : Z * nat * bytes :=
  match s with
  | c :: t => if is_digit c then read_digits t (acc * 10 + digit_val c) (S n) else (acc, n, s)
  | [] => (acc, n, s)
  end.

Definition get_int (s : bytes) : option (Z * bytes) :=
  let s1 := skip_ws s in
  let '(neg, s2) :=
    match s1 with
    | c :: t => if (code c =? 45) then (true, t) else if (code c =? 43) then (false, t) else (false, s1)
    | [] => (false, s1)
    end in
  let '(v, n, s3) := read_digits s2 0 O in
  match n with
  | O => None
  | _ => let z := if neg then - v else v in if in_int z then Some (z, s3) else None
  end.

Definition put_nat (n : Z) : bytes := map digit_char (show_digits 11 10 n []).
Definition put_int (z : Z) : bytes :=
  if z <? 0 then ascii_of_N 45 :: put_nat (- z) else put_nat z.

(* ------------------------------------------------------------------ *)
Record codec (A : Type) := {
  enc : A -> bytes;
  dec : bytes -> option (A * bytes);
  wfc : A -> Prop
}.
Arguments enc {A}. Arguments dec {A}. Arguments wfc {A}.

(* What the reader returns on what the writer wrote, whatever follows and
   whatever whitespace precedes: the value, and the rest up to whitespace. *)
Definition codec_ok {A} (c : codec A) : Prop :=
  forall a w rest, wfc c a -> all_ws w = true ->
    exists w', all_ws w' = true /\ dec c (w ++ enc c a ++ rest) = Some (a, w' ++ rest).

Definition sp : ascii := ascii_of_N 32.
Definition nl : ascii := ascii_of_N 10.

Definition c_int_s (sep : ascii) : codec Z :=
  {| enc := fun z => put_int z ++ [sep]; dec := get_int; wfc := fun z => in_int z = true /\ is_ws sep = true |}.
Definition c_int : codec Z := c_int_s sp.

(* literal whitespace written after a value (record and line terminators) *)
Definition c_then {A} (c : codec A) (lit : bytes) : codec A :=
  {| enc := fun a => enc c a ++ lit; dec := dec c; wfc := fun a => wfc c a /\ all_ws lit = true |}.

(* idf_output_string / idf_input_string *)
Fixpoint take_n (n : nat) (s : bytes) : option (bytes * bytes) :=
  match n with
  | O => Some ([], s)
  | S k => match s with c :: t => match take_n k t with Some (a, r) => Some (c :: a, r) | None => None end | [] => None end
  end.

Definition get_string (s : bytes) : option (bytes * bytes) :=
  match get_int s with
  | None => None
  | Some (n, r) =>
      if n <? 0 then None else
      match r with
      | [] => None                         (* in.get() at end of file: failbit *)
      | _ :: r1 => if Z.of_nat (length r1) <? n then None else take_n (Z.to_nat n) r1
      end
  end.

Definition put_string (sep : ascii) (s : bytes) : bytes :=
  put_int (Z.of_nat (length s)) ++ [sep] ++ match s with [] => [] | _ => s ++ [sep] end.

Definition c_str (sep : ascii) : codec bytes :=
  {| enc := put_string sep; dec := get_string;
     wfc := fun s => in_int (Z.of_nat (length s)) = true /\ is_ws sep = true |}.

Definition c_pair {A B} (ca : codec A) (cb : codec B) : codec (A * B) :=
  {| enc := fun p => enc ca (fst p) ++ enc cb (snd p);
     dec := fun s => match dec ca s with
                     | None => None
                     | Some (a, r) => match dec cb r with None => None | Some (b, r') => Some ((a, b), r') end
                     end;
     wfc := fun p => wfc ca (fst p) /\ wfc cb (snd p) |}.

(* second component's format depends on the first (array_size iff F_array) *)
Definition c_dep {A B} (ca : codec A) (cb : A -> codec B) : codec (A * B) :=
  {| enc := fun p => enc ca (fst p) ++ enc (cb (fst p)) (snd p);
     dec := fun s => match dec ca s with
                     | None => None
                     | Some (a, r) => match dec (cb a) r with None => None | Some (b, r') => Some ((a, b), r') end
                     end;
     wfc := fun p => wfc ca (fst p) /\ wfc (cb (fst p)) (snd p) |}.

Definition c_map {A B} (f : B -> A) (g : A -> B) (c : codec A) : codec B :=
  {| enc := fun b => enc c (f b);
     dec := fun s => match dec c s with Some (a, r) => Some (g a, r) | None => None end;
     wfc := fun b => wfc c (f b) /\ g (f b) = b |}.

(* a field that is absent from the file: nothing written, a default read *)
Definition c_absent {A} (d : A) : codec A :=
  {| enc := fun _ => []; dec := fun s => Some (d, s); wfc := fun a => a = d |}.

Fixpoint dec_n {A} (c : codec A) (n : nat) (s : bytes) : option (list A * bytes) :=
  match n with
  | O => Some ([], s)
  | S k => match dec c s with
           | None => None
           | Some (a, r) => match dec_n c k r with Some (l, r') => Some (a :: l, r') | None => None end
           end
  end.

(* idf_output_vector / idf_input_vector.  Every element occupies at least one
   byte, so a count larger than what is left cannot succeed; this keeps the
   recursion bounded by the input length. *)
Definition c_vec_s {A} (sep : ascii) (c : codec A) : codec (list A) :=
  {| enc := fun l => enc (c_int_s sep) (Z.of_nat (length l)) ++ concat (map (enc c) l);
     dec := fun s => match get_int s with
                     | None => None
                     | Some (n, r) => if n <? 0 then Some ([], r)
                                      else if Z.of_nat (length r) <? n then None
                                      else dec_n c (Z.to_nat n) r
                     end;
     wfc := fun l => in_int (Z.of_nat (length l)) = true /\ is_ws sep = true /\ Forall (wfc c) l |}.
Definition c_vec {A} (c : codec A) : codec (list A) := c_vec_s sp c.

(* every well-formed value occupies at least one byte *)
Definition codec_ne {A} (c : codec A) : Prop := forall a, wfc c a -> (1 <= length (enc c a))%nat.
