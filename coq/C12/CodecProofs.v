From Coq Require Import ZArith List Bool Ascii Lia ZifyBool.
From IV Require Import Common.Int32 C07.Defs C07.Proofs C12.Codec.
Import ListNotations.
Local Open Scope Z_scope.

Lemma all_ws_app a b : all_ws (a ++ b) = all_ws a && all_ws b.
Proof. induction a as [|c t IH]; cbn; [reflexivity|]. now rewrite IH, andb_assoc. Qed.

Lemma skip_ws_app w s : all_ws w = true -> skip_ws (w ++ s) = skip_ws s.
Proof.
  induction w as [|c t IH]; cbn; [reflexivity|]. intros H.
  apply andb_true_iff in H as [H1 H2]. rewrite H1. now apply IH.
Qed.

Lemma code_digit_char d : 0 <= d < 10 -> code (digit_char d) = 48 + d.
Proof.
  intros H. unfold code, digit_char. rewrite N_ascii_embedding.
  - rewrite Z2N.id; lia.
  - apply N2Z.inj_lt. rewrite Z2N.id; lia.
Qed.

Lemma is_digit_digit_char d : 0 <= d < 10 -> is_digit (digit_char d) = true.
Proof. intros H. unfold is_digit. rewrite code_digit_char by assumption. lia. Qed.
Lemma is_ws_digit_char d : 0 <= d < 10 -> is_ws (digit_char d) = false.
Proof. intros H. unfold is_ws. rewrite code_digit_char by assumption. lia. Qed.
Lemma digit_val_digit_char d : 0 <= d < 10 -> digit_val (digit_char d) = d.
Proof. intros H. unfold digit_val. rewrite code_digit_char by assumption. lia. Qed.

Definition starts_nondigit (s : bytes) : Prop :=
  match s with [] => True | c :: _ => is_digit c = false end.

Lemma read_digits_spec ds : Forall (fun d => 0 <= d < 10) ds -> forall r acc n,
  starts_nondigit r ->
  read_digits (map digit_char ds ++ r) acc n = (digits_val 10 ds acc, (n + length ds)%nat, r).
Proof.
  induction 1 as [|d t Hd Ht IH]; intros r acc n Hr; cbn [map app digits_val length].
  - rewrite Nat.add_0_r. destruct r as [|c r']; cbn; [reflexivity|]. cbn in Hr. now rewrite Hr.
  - cbn [read_digits]. rewrite is_digit_digit_char, digit_val_digit_char by assumption.
    rewrite IH by assumption. f_equal. f_equal. lia.
Qed.

Lemma show_digits_nonempty fuel b n acc : (0 < fuel)%nat -> show_digits fuel b n acc <> [].
Proof.
  revert n acc. induction fuel as [|f IH]; intros n acc Hf; [lia|].
  cbn. destruct (n <? b); [discriminate|].
  destruct f; [cbn; discriminate | apply IH; lia].
Qed.

Lemma in_int_lt_pow z : in_int z = true -> 0 <= z -> 0 <= z < 10 ^ Z.of_nat 11.
Proof. intros H H0. apply in_int_spec in H. unfold int_max in H. cbn. lia. Qed.

Lemma put_nat_digits n : 0 <= n < 10 ^ Z.of_nat 11 ->
  exists ds, put_nat n = map digit_char ds /\ Forall (fun d => 0 <= d < 10) ds /\ ds <> [] /\ digits_val 10 ds 0 = n.
Proof.
  intros H. exists (show_digits 11 10 n []). split; [reflexivity|]. split; [|split].
  - apply show_digits_range; try lia. constructor.
  - apply show_digits_nonempty. lia.
  - apply number_roundtrip; lia.
Qed.

(* reading what put_int wrote, after any whitespace, up to the next non-digit *)
Lemma get_put_int z w r : in_int z = true -> all_ws w = true -> starts_nondigit r ->
  get_int (w ++ put_int z ++ r) = Some (z, r).
Proof.
  intros Hz Hw Hr. unfold get_int. rewrite skip_ws_app by assumption.
  unfold put_int. destruct (z <? 0) eqn:Ez.
  - apply Z.ltb_lt in Ez.
    assert (Hn : 0 <= - z < 10 ^ Z.of_nat 11).
    { apply in_int_spec in Hz. unfold int_min in Hz. cbn. lia. }
    destruct (put_nat_digits (- z) Hn) as (ds & -> & Hds & Hne & Hv).
    cbn [app skip_ws]. change (is_ws (ascii_of_N 45)) with false. cbn iota.
    change (code (ascii_of_N 45) =? 45) with true. cbn iota.
    rewrite read_digits_spec by assumption.
    destruct ds as [|d ds']; [congruence|]. cbn [length Nat.add].
    rewrite Hv. replace (- - z) with z by lia. now rewrite Hz.
  - apply Z.ltb_ge in Ez.
    destruct (put_nat_digits z (in_int_lt_pow z Hz Ez)) as (ds & -> & Hds & Hne & Hv).
    destruct ds as [|d ds']; [congruence|].
    assert (Hd : 0 <= d < 10) by (inversion Hds; assumption).
    cbn [map app skip_ws]. rewrite is_ws_digit_char by assumption.
    assert (H45 : (code (digit_char d) =? 45) = false) by (rewrite code_digit_char by assumption; lia).
    assert (H43 : (code (digit_char d) =? 43) = false) by (rewrite code_digit_char by assumption; lia).
    rewrite H45, H43.
    change (digit_char d :: map digit_char ds' ++ r) with (map digit_char (d :: ds') ++ r).
    rewrite read_digits_spec by assumption. cbn [length Nat.add]. rewrite Hv. now rewrite Hz.
Qed.

Lemma is_ws_not_digit c : is_ws c = true -> is_digit c = false.
Proof. unfold is_ws, is_digit. cbv zeta. set (n := code c). clearbody n. lia. Qed.

Lemma c_int_s_ok sep : codec_ok (c_int_s sep).
Proof.
  intros z w rest [Hz Hs] Hw. exists [sep]. split; [cbn; now rewrite Hs|].
  cbn [enc dec c_int_s]. rewrite <- app_assoc. apply get_put_int; auto. cbn. now apply is_ws_not_digit.
Qed.
Lemma c_int_ok : codec_ok c_int.
Proof. apply c_int_s_ok. Qed.

Lemma c_then_ok {A} (c : codec A) lit : codec_ok c -> codec_ok (c_then c lit).
Proof.
  intros H a w rest [Wa Hl] Hw. cbn [enc dec c_then]. rewrite <- app_assoc.
  destruct (H a w (lit ++ rest) Wa Hw) as (w1 & Hw1 & ->).
  exists (w1 ++ lit). split; [rewrite all_ws_app, Hw1, Hl; reflexivity | now rewrite <- app_assoc].
Qed.

Lemma take_n_app (s r : bytes) : take_n (length s) (s ++ r) = Some (s, r).
Proof. induction s as [|c t IH]; cbn; [reflexivity|]. now rewrite IH. Qed.

Lemma c_str_ok sep : codec_ok (c_str sep).
Proof.
  intros s w rest [Hlen Hsep] Hw. cbn [enc dec c_str]. unfold put_string, get_string.
  rewrite <- !app_assoc. rewrite get_put_int; auto.
  2:{ cbn. now apply is_ws_not_digit. }
  assert (Z.of_nat (length s) <? 0 = false) as -> by lia.
  cbn [app]. destruct s as [|c t].
  - exists []. split; [reflexivity|]. cbn.
    destruct (Z.of_nat (length rest) <? 0) eqn:E; [lia|reflexivity].
  - exists [sep]. split; [cbn; now rewrite Hsep|].
    rewrite <- app_assoc.
    assert (Z.of_nat (length ((c :: t) ++ [sep] ++ rest)) <? Z.of_nat (length (c :: t)) = false) as ->.
    { rewrite app_length. lia. }
    rewrite Nat2Z.id. apply take_n_app.
Qed.

Lemma c_pair_ok {A B} (ca : codec A) (cb : codec B) : codec_ok ca -> codec_ok cb -> codec_ok (c_pair ca cb).
Proof.
  intros Ha Hb [a b] w rest [Wa Wb] Hw. cbn [enc dec c_pair fst snd] in *.
  rewrite <- app_assoc. destruct (Ha a w (enc cb b ++ rest) Wa Hw) as (w1 & Hw1 & ->).
  destruct (Hb b w1 rest Wb Hw1) as (w2 & Hw2 & ->). exists w2. auto.
Qed.

Lemma c_dep_ok {A B} (ca : codec A) (cb : A -> codec B) :
  codec_ok ca -> (forall a, codec_ok (cb a)) -> codec_ok (c_dep ca cb).
Proof.
  intros Ha Hb [a b] w rest [Wa Wb] Hw. cbn [enc dec c_dep fst snd] in *.
  rewrite <- app_assoc. destruct (Ha a w (enc (cb a) b ++ rest) Wa Hw) as (w1 & Hw1 & ->).
  destruct (Hb a b w1 rest Wb Hw1) as (w2 & Hw2 & ->). exists w2. auto.
Qed.

Lemma c_map_ok {A B} (f : B -> A) (g : A -> B) (c : codec A) : codec_ok c -> codec_ok (c_map f g c).
Proof.
  intros H b w rest [W E] Hw. cbn [enc dec c_map] in *.
  destruct (H (f b) w rest W Hw) as (w1 & Hw1 & ->). exists w1. now rewrite E.
Qed.

Lemma c_absent_ok {A} (d : A) : codec_ok (c_absent d).
Proof. intros a w rest -> Hw. exists w. cbn. auto. Qed.

Lemma dec_n_ok {A} (c : codec A) : codec_ok c -> forall l w rest,
  Forall (wfc c) l -> all_ws w = true ->
  exists w', all_ws w' = true /\ dec_n c (length l) (w ++ concat (map (enc c) l) ++ rest) = Some (l, w' ++ rest).
Proof.
  intros H. induction l as [|a t IH]; intros w rest Hl Hw.
  - exists w. cbn. auto.
  - inversion Hl as [|? ? Wa Wt]; subst. cbn [length map concat dec_n].
    rewrite <- app_assoc. destruct (H a w (concat (map (enc c) t) ++ rest) Wa Hw) as (w1 & Hw1 & ->).
    destruct (IH w1 rest Wt Hw1) as (w2 & Hw2 & ->). exists w2. auto.
Qed.

Lemma length_concat_ge {A} (c : codec A) (l : list A) : codec_ne c ->
  Forall (wfc c) l -> (length l <= length (concat (map (enc c) l)))%nat.
Proof. intros Hne. induction 1 as [|a t Ha Ht IH]; cbn; [lia|]. rewrite app_length. specialize (Hne a Ha). lia. Qed.

Lemma c_vec_s_ok {A} sep (c : codec A) : codec_ok c -> codec_ne c -> codec_ok (c_vec_s sep c).
Proof.
  intros H Hne l w rest (Hlen & Hsep & Hwf) Hw. cbn [enc dec c_vec_s c_int_s].
  rewrite <- !app_assoc. rewrite get_put_int; auto.
  2:{ cbn. now apply is_ws_not_digit. }
  assert (Z.of_nat (length l) <? 0 = false) as -> by lia.
  assert (Z.of_nat (length ([sep] ++ concat (map (enc c) l) ++ rest)) <? Z.of_nat (length l) = false) as ->.
  { pose proof (length_concat_ge c l Hne Hwf). rewrite !app_length. lia. }
  rewrite Nat2Z.id. apply (dec_n_ok c H l [sep] rest Hwf). cbn. now rewrite Hsep.
Qed.
Lemma c_vec_ok {A} (c : codec A) : codec_ok c -> codec_ne c -> codec_ok (c_vec c).
Proof. apply c_vec_s_ok. Qed.

(* every int and string occupies at least one byte *)
Lemma put_int_nonempty z : in_int z = true -> (1 <= length (put_int z))%nat.
Proof.
  intros Hz. unfold put_int. destruct (z <? 0); [cbn; lia|].
  unfold put_nat. rewrite map_length.
  pose proof (show_digits_nonempty 11 10 z [] ltac:(lia)).
  destruct (show_digits 11 10 z []); [congruence | cbn; lia].
Qed.

Lemma c_int_s_ne sep : codec_ne (c_int_s sep).
Proof. intros z Hz. cbn. rewrite app_length. cbn. lia. Qed.
Lemma c_int_ne : codec_ne c_int.
Proof. apply c_int_s_ne. Qed.
Lemma c_then_ne {A} (c : codec A) lit : codec_ne c -> codec_ne (c_then c lit).
Proof. intros H a [Wa _]. cbn. rewrite app_length. specialize (H a Wa). lia. Qed.
Lemma c_str_ne sep : codec_ne (c_str sep).
Proof. intros s Hs. cbn. unfold put_string. rewrite !app_length. cbn. lia. Qed.
Lemma c_pair_ne {A B} (ca : codec A) (cb : codec B) : codec_ne ca -> codec_ne (c_pair ca cb).
Proof. intros H [a b] [Wa Wb]. cbn in *. rewrite app_length. specialize (H a Wa). lia. Qed.
Lemma c_dep_ne {A B} (ca : codec A) (cb : A -> codec B) : codec_ne ca -> codec_ne (c_dep ca cb).
Proof. intros H [a b] [Wa Wb]. cbn in *. rewrite app_length. specialize (H a Wa). lia. Qed.
Lemma c_map_ne {A B} (f : B -> A) (g : A -> B) (c : codec A) : codec_ne c -> codec_ne (c_map f g c).
Proof. intros H b [W E]. cbn in *. now apply H. Qed.
Lemma c_vec_s_ne {A} sep (c : codec A) : codec_ne (c_vec_s sep c).
Proof. intros l [Hl _]. cbn. rewrite !app_length. cbn. lia. Qed.
Lemma c_vec_ne {A} (c : codec A) : codec_ne (c_vec c).
Proof. apply c_vec_s_ne. Qed.
