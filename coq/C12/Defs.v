(* C12 — database records, their serialisation (field order of every
   output()/input() pair), file header, version gate of load_latest.
   No proofs here. *)
From Coq Require Import ZArith List Bool Ascii.
From IV Require Import Common.Int32 C12.Codec.
Import ListNotations.
Local Open Scope Z_scope.

Record component := { c_name : bytes; c_alts : list bytes }.
Record function := { f_comp : component; f_flags : Z; f_class : Z; f_scoped : bytes;
                     f_cw : list Z; f_pw : list Z; f_comment : bytes; f_proto : bytes }.
Record param := { p_name : bytes; p_flags : Z; p_type : Z }.
Record wrapper := { w_comp : component; w_flags : Z; w_function : Z; w_rettype : Z; w_retdtor : Z;
                    w_unique : bytes; w_comment : bytes; w_params : list param }.
Record deriv := { dv_flags : Z; dv_base : Z; dv_upcast : Z; dv_downcast : Z }.
Record enumval := { ev_name : bytes; ev_scoped : bytes; ev_comment : bytes; ev_value : Z }.
Record type := { t_comp : component; t_flags : Z; t_scoped : bytes; t_true : bytes; t_outer : Z;
                 t_atomic : Z; t_wrapped : Z; t_array : option Z;
                 t_ctors : list Z; t_dtor : Z; t_elements : list Z; t_methods : list Z;
                 t_makeseqs : list Z; t_casts : list Z; t_derivs : list deriv;
                 t_enums : list enumval; t_nested : list Z; t_comment : bytes }.
Record manifest := { m_comp : component; m_flags : Z; m_int : Z; m_type : Z; m_getter : Z; m_def : bytes }.
Record element := { el_comp : component; el_flags : Z; el_type : Z; el_getter : Z; el_setter : Z;
                    el_has : Z; el_clear : Z; el_del : Z; el_length : Z; el_insert : Z; el_getkey : Z;
                    el_scoped : bytes; el_comment : bytes }.
Record makeseq := { s_comp : component; s_lenget : Z; s_elemget : Z; s_scoped : bytes; s_comment : bytes }.

Record moddef := { h_lib : bytes; h_libhash : bytes; h_module : bytes }.
Record db := { d_functions : list (Z * function); d_wrappers : list (Z * wrapper);
               d_types : list (Z * type); d_manifests : list (Z * manifest);
               d_elements : list (Z * element); d_makeseqs : list (Z * makeseq) }.

Definition F_array_bit : Z := 22.          (* InterrogateType::F_array = 0x400000 *)
Definition is_array (flags : Z) : bool := Z.testbit flags F_array_bit.

(* ---- codecs, in the order of the output()/input() bodies ---- *)
Definition c_component : codec component :=
  c_map (fun c => (c_name c, c_alts c)) (fun p => {| c_name := fst p; c_alts := snd p |})
        (c_pair (c_str sp) (c_vec (c_str sp))).

Definition c_function : codec function :=
  c_map (fun f => (f_comp f, (f_flags f, (f_class f, (f_scoped f, (f_cw f, (f_pw f, (f_comment f, f_proto f))))))))
        (fun t => match t with (a, (b, (c, (d, (e, (f, (g, h))))))) =>
           {| f_comp := a; f_flags := b; f_class := c; f_scoped := d; f_cw := e; f_pw := f; f_comment := g; f_proto := h |} end)
        (c_pair c_component (c_pair c_int (c_pair c_int (c_pair (c_str sp)
          (c_pair (c_vec c_int) (c_pair (c_vec c_int) (c_pair (c_str nl) (c_str nl)))))))).

Definition c_param : codec param :=
  c_map (fun p => (p_name p, (p_flags p, p_type p)))
        (fun t => match t with (a, (b, c)) => {| p_name := a; p_flags := b; p_type := c |} end)
        (c_pair (c_str sp) (c_pair c_int (c_then c_int [sp]))).

Definition c_wrapper : codec wrapper :=
  c_map (fun w => (w_comp w, (w_flags w, (w_function w, (w_rettype w, (w_retdtor w, (w_unique w, (w_comment w, w_params w))))))))
        (fun t => match t with (a, (b, (c, (d, (e, (f, (g, h))))))) =>
           {| w_comp := a; w_flags := b; w_function := c; w_rettype := d; w_retdtor := e; w_unique := f; w_comment := g; w_params := h |} end)
        (c_pair c_component (c_pair c_int (c_pair c_int (c_pair c_int (c_pair c_int
          (c_pair (c_str sp) (c_pair (c_str sp) (c_vec c_param)))))))).

Definition c_deriv : codec deriv :=
  c_map (fun d => (dv_flags d, (dv_base d, (dv_upcast d, dv_downcast d))))
        (fun t => match t with (a, (b, (c, d))) => {| dv_flags := a; dv_base := b; dv_upcast := c; dv_downcast := d |} end)
        (c_pair c_int (c_pair c_int (c_pair c_int c_int))).

Definition c_enumval : codec enumval :=
  c_map (fun e => (ev_name e, (ev_scoped e, (ev_comment e, ev_value e))))
        (fun t => match t with (a, (b, (c, d))) => {| ev_name := a; ev_scoped := b; ev_comment := c; ev_value := d |} end)
        (c_pair (c_str sp) (c_pair (c_str sp) (c_pair (c_str nl) c_int))).

(* array_size is written and read iff F_array is set in the flags read just before *)
Definition c_array_size (hd : component * (Z * (bytes * (bytes * (Z * (Z * Z)))))) : codec (option Z) :=
  if is_array (fst (snd hd))
  then c_map (fun o => match o with Some z => z | None => 0 end) Some c_int
  else c_absent None.

Definition c_type : codec type :=
  c_map (fun t => (((t_comp t, (t_flags t, (t_scoped t, (t_true t, (t_outer t, (t_atomic t, t_wrapped t)))))), t_array t),
                   (t_ctors t, (t_dtor t, (t_elements t, (t_methods t, (t_makeseqs t, (t_casts t,
                   (t_derivs t, (t_enums t, (t_nested t, t_comment t)))))))))))
        (fun x => match x with
           (((a, (b, (c, (d, (e, (f, g)))))), h), (i, (j, (k, (l, (m, (n, (o, (p, (q, r)))))))))) =>
           {| t_comp := a; t_flags := b; t_scoped := c; t_true := d; t_outer := e; t_atomic := f; t_wrapped := g;
              t_array := h; t_ctors := i; t_dtor := j; t_elements := k; t_methods := l; t_makeseqs := m;
              t_casts := n; t_derivs := o; t_enums := p; t_nested := q; t_comment := r |} end)
        (c_pair
          (c_dep (c_pair c_component (c_pair c_int (c_pair (c_str sp) (c_pair (c_str sp) (c_pair c_int (c_pair c_int c_int))))))
                 c_array_size)
          (c_pair (c_vec c_int) (c_pair c_int (c_pair (c_vec c_int) (c_pair (c_vec c_int) (c_pair (c_vec c_int)
            (c_pair (c_vec c_int) (c_pair (c_vec c_deriv) (c_pair (c_vec c_enumval) (c_pair (c_vec c_int) (c_str nl))))))))))).

Definition c_manifest : codec manifest :=
  c_map (fun m => (m_comp m, (m_flags m, (m_int m, (m_type m, (m_getter m, m_def m))))))
        (fun t => match t with (a, (b, (c, (d, (e, f))))) =>
           {| m_comp := a; m_flags := b; m_int := c; m_type := d; m_getter := e; m_def := f |} end)
        (c_pair c_component (c_pair c_int (c_pair c_int (c_pair c_int (c_pair c_int (c_str sp)))))).

(* fields added in minor versions 1, 2, 3 are read only from files that new *)
Definition c_since (minor need : Z) : codec Z := if need <=? minor then c_int else c_absent 0.

Definition c_element (minor : Z) : codec element :=
  c_map (fun e => (el_comp e, (el_flags e, (el_type e, (el_getter e, (el_setter e,
                   (el_has e, (el_clear e, (el_del e, (el_length e, (el_insert e, (el_getkey e,
                   (el_scoped e, el_comment e)))))))))))))
        (fun t => match t with (a, (b, (c, (d, (e, (f, (g, (h, (i, (j, (k, (l, m)))))))))))) =>
           {| el_comp := a; el_flags := b; el_type := c; el_getter := d; el_setter := e; el_has := f; el_clear := g;
              el_del := h; el_length := i; el_insert := j; el_getkey := k; el_scoped := l; el_comment := m |} end)
        (c_pair c_component (c_pair c_int (c_pair c_int (c_pair c_int (c_pair c_int
          (c_pair (c_since minor 1) (c_pair (c_since minor 1) (c_pair (c_since minor 2) (c_pair (c_since minor 2)
          (c_pair (c_since minor 3) (c_pair (c_since minor 3) (c_pair (c_str sp) (c_str nl))))))))))))).

Definition c_makeseq : codec makeseq :=
  c_map (fun s => (s_comp s, (s_lenget s, (s_elemget s, (s_scoped s, s_comment s)))))
        (fun t => match t with (a, (b, (c, (d, e)))) =>
           {| s_comp := a; s_lenget := b; s_elemget := c; s_scoped := d; s_comment := e |} end)
        (c_pair c_component (c_pair c_int (c_pair c_int (c_pair (c_str sp) (c_str nl))))).

Definition c_moddef : codec moddef :=
  c_map (fun h => (h_lib h, (h_libhash h, h_module h)))
        (fun t => match t with (a, (b, c)) => {| h_lib := a; h_libhash := b; h_module := c |} end)
        (c_pair (c_str sp) (c_pair (c_str sp) (c_then (c_str sp) [nl]))).

(* count NL (index SP record NL)* *)
Definition c_section {A} (c : codec A) : codec (list (Z * A)) := c_vec_s nl (c_pair c_int (c_then c [nl])).

(* body of the file after the three header integers: read_new() *)
Definition c_body (minor : Z) : codec (moddef * db) :=
  c_map (fun x => (fst x, (d_functions (snd x), (d_wrappers (snd x), (d_types (snd x),
                  (d_manifests (snd x), (d_elements (snd x), d_makeseqs (snd x))))))))
        (fun t => match t with (h, (a, (b, (c, (d, (e, f)))))) =>
           (h, {| d_functions := a; d_wrappers := b; d_types := c; d_manifests := d; d_elements := e; d_makeseqs := f |}) end)
        (c_pair c_moddef (c_pair (c_section c_function) (c_pair (c_section c_wrapper) (c_pair (c_section c_type)
          (c_pair (c_section c_manifest) (c_pair (c_section (c_element minor)) (c_section c_makeseq))))))).

Definition current_major : Z := 3.
Definition current_minor : Z := 3.

(* InterrogateDatabase::write *)
Definition write_file (ident : Z) (minor : Z) (h : moddef) (d : db) : bytes :=
  enc (c_int_s nl) ident ++ enc c_int current_major ++ enc (c_int_s nl) minor ++ enc (c_body minor) (h, d).

(* compatibility fix-up of read_new: functions named as constructor/destructor of a type get the flag *)
Definition F_constructor : Z := 256.
Definition F_destructor : Z := 512.
Definition or_flag (fl : Z) (idx : Z) (fs : list (Z * function)) : list (Z * function) :=
  map (fun p => if fst p =? idx then
                  (fst p, {| f_comp := f_comp (snd p); f_flags := Z.lor (f_flags (snd p)) fl; f_class := f_class (snd p);
                             f_scoped := f_scoped (snd p); f_cw := f_cw (snd p); f_pw := f_pw (snd p);
                             f_comment := f_comment (snd p); f_proto := f_proto (snd p) |})
                else p) fs.
Definition fixup_type (fs : list (Z * function)) (t : type) : list (Z * function) :=
  let fs1 := if t_dtor t =? 0 then fs else or_flag F_destructor (t_dtor t) fs in
  fold_left (fun acc c => or_flag F_constructor c acc) (t_ctors t) fs1.
Definition fixup (d : db) : db :=
  {| d_functions := fold_left (fun acc p => fixup_type acc (snd p)) (d_types d) (d_functions d);
     d_wrappers := d_wrappers d; d_types := d_types d; d_manifests := d_manifests d;
     d_elements := d_elements d; d_makeseqs := d_makeseqs d |}.

(* load_latest for one file.  expected_ident = def->file_identifier (0 = do not check).
   Result: error flag, and the database handed to merge (None = nothing merged). *)
Definition load_file (expected_ident : Z) (file : bytes) : bool * option (moddef * db) :=
  match get_int file with
  | None => (true, None)
  | Some (ident, r1) =>
    match get_int r1 with
    | None => (true, None)
    | Some (major, r2) =>
      match get_int r2 with
      | None => (true, None)
      | Some (minor, r3) =>
        let mismatch := negb (expected_ident =? 0) && negb (ident =? expected_ident) in
        if negb (major =? current_major) || (current_minor <? minor) then (true, None)
        else match dec (c_body minor) r3 with
             | None => (true, None)
             | Some ((h, d), _) => (mismatch, Some (h, fixup d))
             end
      end
    end
  end.

(* absent fields of an old-format element take their defaults *)
Definition element_defaults (minor : Z) (e : element) : element :=
  {| el_comp := el_comp e; el_flags := el_flags e; el_type := el_type e; el_getter := el_getter e; el_setter := el_setter e;
     el_has := if 1 <=? minor then el_has e else 0; el_clear := if 1 <=? minor then el_clear e else 0;
     el_del := if 2 <=? minor then el_del e else 0; el_length := if 2 <=? minor then el_length e else 0;
     el_insert := if 3 <=? minor then el_insert e else 0; el_getkey := if 3 <=? minor then el_getkey e else 0;
     el_scoped := el_scoped e; el_comment := el_comment e |}.
Definition db_defaults (minor : Z) (d : db) : db :=
  {| d_functions := d_functions d; d_wrappers := d_wrappers d; d_types := d_types d; d_manifests := d_manifests d;
     d_elements := map (fun p => (fst p, element_defaults minor (snd p))) (d_elements d); d_makeseqs := d_makeseqs d |}.
