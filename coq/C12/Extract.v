From Coq Require Import ExtrOcamlBasic ExtrOcamlString.
From IV Require Import Common.Int32 C12.Codec C12.Defs.
Extraction Language OCaml.
Extraction "ext.ml" write_file load_file db_defaults fixup get_int get_string.
