From Coq Require Import ZArith List Bool Ascii Lia ZifyBool.
From IV Require Import Common.Int32 C12.Codec C12.CodecProofs C12.Defs.
Import ListNotations.
Local Open Scope Z_scope.

Ltac ok_step :=
  first [ apply c_map_ok | apply c_pair_ok | apply c_dep_ok | apply c_vec_ok | apply c_vec_s_ok
        | apply c_str_ok | apply c_int_ok | apply c_int_s_ok | apply c_then_ok | apply c_absent_ok
        | apply c_map_ne | apply c_pair_ne | apply c_dep_ne | apply c_vec_ne | apply c_vec_s_ne
        | apply c_str_ne | apply c_int_ne | apply c_int_s_ne | apply c_then_ne ].

Lemma c_component_ok : codec_ok c_component. Proof. unfold c_component. repeat ok_step. Qed.
Lemma c_component_ne : codec_ne c_component. Proof. unfold c_component. repeat ok_step. Qed.
#[local] Hint Resolve c_component_ok c_component_ne : codec.

Lemma c_function_ok : codec_ok c_function.
Proof. unfold c_function. repeat (ok_step; auto with codec). Qed.
Lemma c_function_ne : codec_ne c_function.
Proof. unfold c_function. repeat (ok_step; auto with codec). Qed.
Lemma c_param_ok : codec_ok c_param. Proof. unfold c_param. repeat ok_step. Qed.
Lemma c_param_ne : codec_ne c_param. Proof. unfold c_param. repeat ok_step. Qed.
#[local] Hint Resolve c_param_ok c_param_ne : codec.
Lemma c_wrapper_ok : codec_ok c_wrapper.
Proof. unfold c_wrapper. repeat (ok_step; auto with codec). Qed.
Lemma c_wrapper_ne : codec_ne c_wrapper.
Proof. unfold c_wrapper. repeat (ok_step; auto with codec). Qed.
Lemma c_deriv_ok : codec_ok c_deriv. Proof. unfold c_deriv. repeat ok_step. Qed.
Lemma c_deriv_ne : codec_ne c_deriv. Proof. unfold c_deriv. repeat ok_step. Qed.
Lemma c_enumval_ok : codec_ok c_enumval. Proof. unfold c_enumval. repeat ok_step. Qed.
Lemma c_enumval_ne : codec_ne c_enumval. Proof. unfold c_enumval. repeat ok_step. Qed.
#[local] Hint Resolve c_deriv_ok c_deriv_ne c_enumval_ok c_enumval_ne : codec.

Lemma c_array_size_ok hd : codec_ok (c_array_size hd).
Proof. unfold c_array_size. destruct (is_array _); repeat ok_step. Qed.
#[local] Hint Resolve c_array_size_ok : codec.

Lemma c_type_ok : codec_ok c_type.
Proof. unfold c_type. repeat (ok_step; auto with codec). Qed.
Lemma c_type_ne : codec_ne c_type.
Proof. unfold c_type. repeat (ok_step; auto with codec). Qed.
Lemma c_manifest_ok : codec_ok c_manifest.
Proof. unfold c_manifest. repeat (ok_step; auto with codec). Qed.
Lemma c_manifest_ne : codec_ne c_manifest.
Proof. unfold c_manifest. repeat (ok_step; auto with codec). Qed.
Lemma c_since_ok minor need : codec_ok (c_since minor need).
Proof. unfold c_since. destruct (need <=? minor); repeat ok_step. Qed.
#[local] Hint Resolve c_since_ok : codec.
Lemma c_element_ok minor : codec_ok (c_element minor).
Proof. unfold c_element. repeat (ok_step; auto with codec). Qed.
Lemma c_element_ne minor : codec_ne (c_element minor).
Proof. unfold c_element. repeat (ok_step; auto with codec). Qed.
Lemma c_makeseq_ok : codec_ok c_makeseq.
Proof. unfold c_makeseq. repeat (ok_step; auto with codec). Qed.
Lemma c_makeseq_ne : codec_ne c_makeseq.
Proof. unfold c_makeseq. repeat (ok_step; auto with codec). Qed.
Lemma c_moddef_ok : codec_ok c_moddef. Proof. unfold c_moddef. repeat ok_step. Qed.

Lemma c_section_ok {A} (c : codec A) : codec_ok c -> codec_ok (c_section c).
Proof. intros H. unfold c_section. repeat (ok_step; auto). Qed.

Lemma c_body_ok minor : codec_ok (c_body minor).
Proof.
  unfold c_body. apply c_map_ok.
  repeat (first [apply c_pair_ok | apply c_section_ok]);
    auto using c_moddef_ok, c_function_ok, c_wrapper_ok, c_type_ok, c_manifest_ok, c_element_ok, c_makeseq_ok.
Qed.

(* ---- file level ---- *)
Definition hdr_ok (ident minor : Z) : Prop := in_int ident = true /\ in_int minor = true.

Lemma read_header ident major minor body :
  in_int ident = true -> in_int major = true -> in_int minor = true ->
  exists w, all_ws w = true /\
    get_int (enc (c_int_s nl) ident ++ enc c_int major ++ enc (c_int_s nl) minor ++ body) =
      Some (ident, [nl] ++ enc c_int major ++ enc (c_int_s nl) minor ++ body) /\
    get_int ([nl] ++ enc c_int major ++ enc (c_int_s nl) minor ++ body) =
      Some (major, [sp] ++ enc (c_int_s nl) minor ++ body) /\
    get_int ([sp] ++ enc (c_int_s nl) minor ++ body) = Some (minor, [nl] ++ body).
Proof.
  intros Hi Hj Hn. exists [nl]. split; [reflexivity|]. cbn [enc c_int c_int_s]. repeat split.
  - rewrite <- app_assoc. apply (get_put_int ident [] _ Hi); reflexivity.
  - rewrite <- app_assoc. apply (get_put_int major [nl] _ Hj); reflexivity.
  - rewrite <- app_assoc. apply (get_put_int minor [sp] _ Hn); reflexivity.
Qed.

Theorem load_write_gen expected ident minor h d :
  in_int ident = true -> 0 <= minor <= current_minor -> wfc (c_body minor) (h, d) ->
  load_file expected (write_file ident minor h d) =
    (negb (expected =? 0) && negb (ident =? expected), Some (h, fixup d)).
Proof.
  intros Hi Hm Hwf. unfold load_file, write_file.
  assert (Hn : in_int minor = true) by (apply in_int_spec; unfold int_min, int_max, current_minor in *; lia).
  destruct (read_header ident current_major minor (enc (c_body minor) (h, d)) Hi eq_refl Hn) as (w & Hw & -> & -> & ->).
  rewrite Z.eqb_refl. cbn [negb orb].
  assert (current_minor <? minor = false) as -> by lia.
  destruct (c_body_ok minor (h, d) [nl] [] Hwf eq_refl) as (w' & Hw' & Hdec).
  rewrite app_nil_r in Hdec. cbn [app] in Hdec |- *. rewrite Hdec. reflexivity.
Qed.

(* writing in the current format and reading back gives the same database *)
Theorem roundtrip ident h d :
  in_int ident = true -> wfc (c_body current_minor) (h, d) -> fixup d = d ->
  load_file ident (write_file ident current_minor h d) = (false, Some (h, d)) /\
  load_file 0 (write_file ident current_minor h d) = (false, Some (h, d)).
Proof.
  intros Hi Hwf Hfix. split; rewrite load_write_gen; auto; try (unfold current_minor; lia);
    rewrite Hfix, ?Z.eqb_refl; cbn; try reflexivity.
  now rewrite andb_false_r.
Qed.

(* hence re-serialisation is byte-identical *)
Theorem reserialise ident h d h' d' :
  in_int ident = true -> wfc (c_body current_minor) (h, d) -> fixup d = d ->
  load_file 0 (write_file ident current_minor h d) = (false, Some (h', d')) ->
  write_file ident current_minor h' d' = write_file ident current_minor h d.
Proof.
  intros Hi Hwf Hfix H. destruct (roundtrip ident h d Hi Hwf Hfix) as [_ H2].
  rewrite H2 in H. now inversion H.
Qed.

(* files of an older minor format load with defaults for the fields they lack *)
Theorem old_minor ident minor h d :
  in_int ident = true -> 0 <= minor <= current_minor ->
  wfc (c_body minor) (h, db_defaults minor d) ->
  load_file 0 (write_file ident minor h (db_defaults minor d)) = (false, Some (h, fixup (db_defaults minor d))).
Proof. intros Hi Hm Hwf. rewrite load_write_gen; auto. Qed.

(* a different major version or a newer minor version: error flag, nothing merged *)
Theorem version_gate expected ident major minor body :
  in_int ident = true -> in_int major = true -> in_int minor = true ->
  major <> current_major \/ current_minor < minor ->
  load_file expected (enc (c_int_s nl) ident ++ enc c_int major ++ enc (c_int_s nl) minor ++ body) = (true, None).
Proof.
  intros Hi Hj Hn Hv. unfold load_file.
  destruct (read_header ident major minor body Hi Hj Hn) as (w & Hw & -> & -> & ->).
  assert (negb (major =? current_major) || (current_minor <? minor) = true) as -> by lia.
  reflexivity.
Qed.

(* identifier mismatch always raises the error flag *)
Theorem ident_mismatch expected ident minor h d :
  in_int ident = true -> 0 <= minor <= current_minor -> wfc (c_body minor) (h, d) ->
  expected <> 0 -> ident <> expected ->
  fst (load_file expected (write_file ident minor h d)) = true.
Proof.
  intros Hi Hm Hwf H0 Hne. rewrite load_write_gen; auto. cbn [fst]. lia.
Qed.

(* ---- non-vacuity: a concrete database meeting the hypotheses of roundtrip ---- *)
Definition ex_str (l : list Z) : bytes := map (fun z => ascii_of_N (Z.to_N z)) l.
Definition ex_comp := {| c_name := ex_str [102; 32; 10; 255]; c_alts := [ex_str []; ex_str [97]] |}.
Definition ex_db : db :=
  {| d_functions := [(2, {| f_comp := ex_comp; f_flags := 256; f_class := 3; f_scoped := ex_str [65; 58; 58; 102];
                            f_cw := [1]; f_pw := []; f_comment := ex_str [10; 10]; f_proto := ex_str [] |})];
     d_wrappers := [(1, {| w_comp := ex_comp; w_flags := 6; w_function := 2; w_rettype := 3; w_retdtor := 0;
                           w_unique := ex_str [117]; w_comment := ex_str []; 
                           w_params := [{| p_name := ex_str [120]; p_flags := 1; p_type := 3 |}] |})];
     d_types := [(3, {| t_comp := ex_comp; t_flags := 4194305; t_scoped := ex_str [65]; t_true := ex_str [65];
                        t_outer := 0; t_atomic := 0; t_wrapped := 0; t_array := Some 5; t_ctors := [2]; t_dtor := 0;
                        t_elements := [5]; t_methods := [2]; t_makeseqs := [6]; t_casts := [];
                        t_derivs := [{| dv_flags := 1; dv_base := 3; dv_upcast := 2; dv_downcast := 0 |}];
                        t_enums := [{| ev_name := ex_str [86]; ev_scoped := ex_str [86]; ev_comment := ex_str [32]; ev_value := -2147483648 |}];
                        t_nested := []; t_comment := ex_str [99; 32] |})];
     d_manifests := [(4, {| m_comp := ex_comp; m_flags := 3; m_int := -7; m_type := 3; m_getter := 0; m_def := ex_str [40; 45; 55; 41] |})];
     d_elements := [(5, {| el_comp := ex_comp; el_flags := 1; el_type := 3; el_getter := 2; el_setter := 0; el_has := 2; el_clear := 0;
                           el_del := 0; el_length := 2; el_insert := 0; el_getkey := 2; el_scoped := ex_str [101]; el_comment := ex_str [] |})];
     d_makeseqs := [(6, {| s_comp := ex_comp; s_lenget := 2; s_elemget := 2; s_scoped := ex_str [115]; s_comment := ex_str [10] |})] |}.
Definition ex_h := {| h_lib := ex_str [108]; h_libhash := ex_str []; h_module := ex_str [109] |}.

Example ex_wf : wfc (c_body current_minor) (ex_h, ex_db) /\ fixup ex_db = ex_db.
Proof.
  split; [|reflexivity].
  cbn. repeat (first [split | reflexivity | constructor]).
Qed.
Example ex_roundtrip : load_file 0 (write_file 77 current_minor ex_h ex_db) = (false, Some (ex_h, ex_db)).
Proof. vm_compute. reflexivity. Qed.
