From Coq Require Import ZArith List Bool Lia.
From IV Require Import Common.Int32 C12.Codec C12.Defs C11.Defs.
Import ListNotations.
Local Open Scope Z_scope.

Lemma mem_In i l : mem i l = true <-> In i l.
Proof.
  unfold mem. rewrite existsb_exists. split.
  - intros (x & Hx & E). apply Z.eqb_eq in E. now subst.
  - intros H. exists i. split; [assumption | apply Z.eqb_refl].
Qed.

Theorem closedb_sound d : closedb d = true <-> closed d.
Proof.
  unfold closedb, closed. rewrite forallb_forall. split.
  - intros H k i Hin. specialize (H (k, i) Hin). cbn in H.
    apply orb_true_iff in H as [H|H]; [left; now apply Z.eqb_eq | right; now apply mem_In].
  - intros H [k i] Hin. cbn. apply orb_true_iff. destruct (H k i Hin) as [->|Hk]; [left; reflexivity | right; now apply mem_In].
Qed.

Lemma nodupb_NoDup l : nodupb l = true <-> NoDup l.
Proof.
  induction l as [|x t IH]; cbn.
  - split; [constructor | reflexivity].
  - rewrite andb_true_iff, negb_true_iff, IH. split.
    + intros [H1 H2]. constructor; [|assumption]. intros Hin. apply mem_In in Hin. congruence.
    + intros H. inversion H as [|? ? Hn Hd]; subst. split; [|assumption].
      destruct (mem x t) eqn:E; [apply mem_In in E; contradiction | reflexivity].
Qed.

(* ---- every index field of every record goes through the remapper ---- *)
Lemma tag_map k r l : tag k (map r l) = map (fun p => (fst p, r (snd p))) (tag k l).
Proof. unfold tag. rewrite !map_map. reflexivity. Qed.

Definition rmref (r : Z -> Z) (p : kind * Z) : kind * Z := (fst p, r (snd p)).

Lemma refs_rm_function r f : refs_function (rm_function r f) = map (rmref r) (refs_function f).
Proof. unfold refs_function, tag, rmref. cbn. rewrite !map_app, !map_map. reflexivity. Qed.
Lemma refs_rm_wrapper r w : refs_wrapper (rm_wrapper r w) = map (rmref r) (refs_wrapper w).
Proof. unfold refs_wrapper, tag, rmref. cbn. rewrite !map_map. reflexivity. Qed.
Lemma refs_rm_deriv r x : refs_deriv (rm_deriv r x) = map (rmref r) (refs_deriv x).
Proof. reflexivity. Qed.
Lemma flat_map_rm_deriv r l : flat_map refs_deriv (map (rm_deriv r) l) = map (rmref r) (flat_map refs_deriv l).
Proof. induction l as [|x t IH]; cbn; [reflexivity|]. now rewrite IH. Qed.
Lemma refs_rm_type r t : refs_type (rm_type r t) = map (rmref r) (refs_type t).
Proof.
  unfold refs_type, tag. cbn. rewrite flat_map_rm_deriv. unfold rmref. cbn. rewrite !map_app. cbn. rewrite !map_app, !map_map. reflexivity.
Qed.
Lemma refs_rm_manifest r m : refs_manifest (rm_manifest r m) = map (rmref r) (refs_manifest m).
Proof. reflexivity. Qed.
Lemma refs_rm_element r e : refs_element (rm_element r e) = map (rmref r) (refs_element e).
Proof. reflexivity. Qed.
Lemma refs_rm_makeseq r s : refs_makeseq (rm_makeseq r s) = map (rmref r) (refs_makeseq s).
Proof. reflexivity. Qed.

Lemma flat_map_section {A} (r : Z -> Z) (f : (Z -> Z) -> A -> A) (g : A -> list (kind * Z)) l :
  (forall a, g (f r a) = map (rmref r) (g a)) ->
  flat_map (fun p => g (snd p)) (rm_section r f l) = map (rmref r) (flat_map (fun p => g (snd p)) l).
Proof.
  intros H. induction l as [|p t IH]; cbn; [reflexivity|]. rewrite map_app, H, <- IH. reflexivity.
Qed.

Lemma all_refs_rm r d : all_refs (rm_db r d) = map (rmref r) (all_refs d).
Proof.
  unfold all_refs. cbn. rewrite !map_app.
  rewrite (flat_map_section r rm_wrapper refs_wrapper) by apply refs_rm_wrapper.
  rewrite (flat_map_section r rm_function refs_function) by apply refs_rm_function.
  rewrite (flat_map_section r rm_type refs_type) by apply refs_rm_type.
  rewrite (flat_map_section r rm_manifest refs_manifest) by apply refs_rm_manifest.
  rewrite (flat_map_section r rm_element refs_element) by apply refs_rm_element.
  rewrite (flat_map_section r rm_makeseq refs_makeseq) by apply refs_rm_makeseq.
  reflexivity.
Qed.

Lemma keys_rm_section {A} r (f : (Z -> Z) -> A -> A) l : keys (rm_section r f l) = map r (keys l).
Proof. unfold keys, rm_section. rewrite !map_map. reflexivity. Qed.

Lemma keys_of_rm r d k : keys_of (rm_db r d) k = map r (keys_of d k).
Proof. destruct k; unfold keys_of, rm_db; cbn [d_functions d_wrappers d_types d_manifests d_elements d_makeseqs]; apply keys_rm_section. Qed.

(* any renumbering that fixes 0 preserves closure *)
Theorem rm_preserves_closed r d : r 0 = 0 -> closed d -> closed (rm_db r d).
Proof.
  intros H0 Hc k i Hin. rewrite all_refs_rm in Hin. apply in_map_iff in Hin as ([k' i'] & E & Hin').
  unfold rmref in E. cbn in E. injection E as Ek Ei. subst k i. rewrite keys_of_rm.
  destruct (Hc k' i' Hin') as [->|Hk]; [left; exact H0 | right; now apply in_map].
Qed.

Lemma assoc_notin m i : ~ In i (map fst m) -> assoc m i = i.
Proof.
  induction m as [|[a b] t IH]; cbn; [reflexivity|]. intros H.
  destruct (a =? i) eqn:E; [apply Z.eqb_eq in E; tauto | apply IH; tauto].
Qed.

Lemma number_fst first l : map fst (number first l) = l.
Proof. revert first. induction l as [|k t IH]; intros first; cbn; [reflexivity|]. now rewrite IH. Qed.

Theorem remap_preserves_closed first d :
  ~ In 0 (all_keys d) -> closed d -> closed (fst (remap first d)).
Proof.
  intros H0 Hc. cbn. apply rm_preserves_closed; [|assumption].
  apply assoc_notin. now rewrite number_fst.
Qed.

(* consecutive numbering *)
Lemma assoc_number first l : NoDup l -> map (assoc (number first l)) l = zseq first (length l).
Proof.
  revert first. induction l as [|k t IH]; intros first Hnd; cbn; [reflexivity|].
  inversion Hnd as [|? ? Hn Hd]; subst. rewrite Z.eqb_refl. f_equal.
  rewrite <- (IH (first + 1) Hd). apply map_ext_in. intros i Hi.
  destruct (k =? i) eqn:E; [apply Z.eqb_eq in E; subst; contradiction | reflexivity].
Qed.

Lemma zseq_app first a b : zseq first (a + b) = zseq first a ++ zseq (first + Z.of_nat a) b.
Proof.
  revert first. induction a as [|a IH]; intros first; cbn [zseq Nat.add app].
  - now rewrite Z.add_0_r.
  - rewrite IH. do 3 f_equal. lia.
Qed.

Lemma all_keys_rm r d : all_keys (rm_db r d) = map r (all_keys d).
Proof. unfold all_keys, rm_db. cbn [d_functions d_wrappers d_types d_manifests d_elements d_makeseqs]. rewrite !keys_rm_section, !map_app. reflexivity. Qed.

(* after remap(first): all keys are first, first+1, ..., in the order wrappers,
   functions, types, manifests, elements, make_seqs; wrappers come first *)
Theorem remap_consecutive first d : NoDup (all_keys d) ->
  all_keys (fst (remap first d)) = zseq first (length (all_keys d)) /\
  snd (remap first d) = first + Z.of_nat (length (all_keys d)).
Proof.
  intros Hnd. split; [|reflexivity]. unfold remap. cbn [fst]. rewrite all_keys_rm. now apply assoc_number.
Qed.

Lemma firstn_zseq first n m : (n <= m)%nat -> firstn n (zseq first m) = zseq first n.
Proof.
  revert first m. induction n as [|n IH]; intros first m H; [reflexivity|].
  destruct m; [lia|]. cbn. f_equal. apply IH. lia.
Qed.

Theorem wrappers_first first d : NoDup (all_keys d) ->
  keys (d_wrappers (fst (remap first d))) = zseq first (length (d_wrappers d)).
Proof.
  intros Hnd. destruct (remap_consecutive first d Hnd) as [H _].
  assert (Hw : keys (d_wrappers (fst (remap first d))) = firstn (length (d_wrappers d)) (all_keys (fst (remap first d)))).
  { unfold all_keys at 1. rewrite firstn_app.
    assert (L : length (keys (d_wrappers (fst (remap first d)))) = length (d_wrappers d)).
    { unfold remap, rm_db. cbn [fst d_wrappers]. rewrite keys_rm_section. unfold keys. now rewrite !map_length. }
    rewrite L, Nat.sub_diag. cbn [firstn]. rewrite app_nil_r.
    rewrite <- L at 1. now rewrite firstn_all. }
  rewrite Hw, H. apply firstn_zseq. unfold all_keys. rewrite !app_length. unfold keys. rewrite map_length. lia.
Qed.

Lemma find_some {A} (l : list (Z * A)) i a : find l i = Some a -> exists k, In (k, a) l /\ k = i.
Proof.
  unfold find. destruct (List.find _ l) as [p|] eqn:E; [|discriminate]. intros H. inversion H; subst.
  apply find_some in E as [Hin Hk]. apply Z.eqb_eq in Hk. exists (fst p). split; [now destruct p | assumption].
Qed.

Theorem linksb_sound d : linksb d = true <-> links_ok d.
Proof.
  unfold linksb, links_ok. rewrite forallb_forall. split.
  - intros H fi f Hin wi Hwi. specialize (H (fi, f) Hin). cbn in H. rewrite forallb_forall in H.
    specialize (H wi Hwi). destruct (find (d_wrappers d) wi) as [w|]; [|discriminate].
    exists w. split; [reflexivity | now apply Z.eqb_eq].
  - intros H [fi f] Hin. cbn. apply forallb_forall. intros wi Hwi.
    destruct (H fi f Hin wi Hwi) as (w & -> & E). now apply Z.eqb_eq.
Qed.
