From Coq Require Import ExtrOcamlBasic ExtrOcamlString.
From IV Require Import Common.Int32 C12.Codec C12.Defs C11.Defs C11.Flags.
Extraction Language OCaml.
Extraction "ext.ml" flagsb closedb linksb nodupb remap all_keys zseq keys_of write_file load_file.
