(* C11 — a flag that announces a cross reference and the reference itself go together:
   InterrogateElement::F_has_getter / F_has_setter / F_has_has_function / F_has_clear_function / F_has_del_function /
   F_has_insert_function / F_has_getkey_function  <->  the corresponding function index is not 0.
   A flag without its index is a reference to nothing that the closure test (which lets 0 pass as "none") cannot see. *)
From Coq Require Import ZArith List Bool.
From IV Require Import Common.Int32 C12.Codec C12.Defs C11.Defs.
Import ListNotations.
Local Open Scope Z_scope.

(* bit number of the flag, the index it announces *)
Definition el_pairs (e : element) : list (Z * Z) :=
  [(1, el_getter e); (2, el_setter e); (3, el_has e); (4, el_clear e); (5, el_del e); (8, el_insert e); (9, el_getkey e)].

(* Specification *)
Definition element_flags_consistent (e : element) : Prop :=
  forall bit idx, In (bit, idx) (el_pairs e) -> (Z.testbit (el_flags e) bit = true <-> idx <> 0).
Definition flags_consistent (d : db) : Prop := forall i e, In (i, e) (d_elements d) -> element_flags_consistent e.

(* the checker that is run on every real database *)
Definition pair_ok (fl : Z) (p : Z * Z) : bool := Bool.eqb (Z.testbit fl (fst p)) (negb (snd p =? 0)).
Definition element_flagsb (e : element) : bool := forallb (pair_ok (el_flags e)) (el_pairs e).
Definition flagsb (d : db) : bool := forallb (fun p => element_flagsb (snd p)) (d_elements d).

Theorem flagsb_sound d : flagsb d = true -> flags_consistent d.
Proof.
  unfold flagsb, flags_consistent. intros H. rewrite forallb_forall in H. intros i e Hin bit idx Hp.
  specialize (H (i, e) Hin). cbn [snd] in H. unfold element_flagsb in H. rewrite forallb_forall in H.
  specialize (H (bit, idx) Hp). unfold pair_ok in H. cbn [fst snd] in H. apply eqb_prop in H. rewrite H.
  rewrite negb_true_iff, Z.eqb_neq. tauto.
Qed.

Theorem flagsb_complete d : flags_consistent d -> flagsb d = true.
Proof.
  unfold flagsb, flags_consistent. intros H. apply forallb_forall. intros [i e] Hin. cbn [snd].
  unfold element_flagsb. apply forallb_forall. intros [bit idx] Hp. unfold pair_ok. cbn [fst snd].
  destruct (H i e Hin bit idx Hp) as [H1 H2]. apply eqb_true_iff.
  destruct (idx =? 0) eqn:E; cbn [negb].
  - apply Z.eqb_eq in E. destruct (Z.testbit (el_flags e) bit) eqn:T; [exfalso; apply (H1 eq_refl E) | reflexivity].
  - apply Z.eqb_neq in E. apply H2. exact E.
Qed.

(* remapping with any remapper that sends exactly 0 to 0 keeps the flags and the references in step *)
Lemma rm_element_flags r e : (forall i, r i = 0 <-> i = 0) -> element_flags_consistent e -> element_flags_consistent (rm_element r e).
Proof.
  intros Hr H bit idx Hp. unfold el_pairs in Hp. cbn in Hp.
  assert (G : exists idx0, In (bit, idx0) (el_pairs e) /\ idx = r idx0).
  { unfold el_pairs. cbn. repeat (destruct Hp as [Hp|Hp]; [inversion Hp; subst; eexists; split; [|reflexivity]; tauto|]). destruct Hp. }
  destruct G as (idx0 & Hin & ->). cbn [rm_element el_flags]. rewrite (H bit idx0 Hin). rewrite Hr. tauto.
Qed.
