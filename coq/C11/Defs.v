(* C11 — referential closure of the database and index remapping
   (InterrogateDatabase::remap_indices, every record's remap_indices).  No proofs. *)
From Coq Require Import ZArith List Bool.
From IV Require Import Common.Int32 C12.Codec C12.Defs.
Import ListNotations.
Local Open Scope Z_scope.

Inductive kind := KW | KF | KT | KM | KE | KS.
Definition kind_eqb (a b : kind) : bool :=
  match a, b with KW, KW | KF, KF | KT, KT | KM, KM | KE, KE | KS, KS => true | _, _ => false end.

Definition keys {A} (l : list (Z * A)) : list Z := map fst l.
Definition keys_of (d : db) (k : kind) : list Z :=
  match k with
  | KW => keys (d_wrappers d) | KF => keys (d_functions d) | KT => keys (d_types d)
  | KM => keys (d_manifests d) | KE => keys (d_elements d) | KS => keys (d_makeseqs d)
  end.
(* the order in which remap_indices numbers the entries *)
Definition all_keys (d : db) : list Z :=
  keys (d_wrappers d) ++ keys (d_functions d) ++ keys (d_types d) ++ keys (d_manifests d) ++ keys (d_elements d) ++ keys (d_makeseqs d).

(* every index field of every record, with the kind of entry it must name *)
Definition tag (k : kind) (l : list Z) : list (kind * Z) := map (fun i => (k, i)) l.
Definition refs_function (f : function) : list (kind * Z) := (KT, f_class f) :: tag KW (f_cw f) ++ tag KW (f_pw f).
Definition refs_wrapper (w : wrapper) : list (kind * Z) :=
  (KF, w_function w) :: (KF, w_retdtor w) :: (KT, w_rettype w) :: tag KT (map p_type (w_params w)).
Definition refs_deriv (x : deriv) : list (kind * Z) := [(KT, dv_base x); (KF, dv_upcast x); (KF, dv_downcast x)].
Definition refs_type (t : type) : list (kind * Z) :=
  (KT, t_outer t) :: (KT, t_wrapped t) :: tag KF (t_ctors t) ++ (KF, t_dtor t) :: tag KE (t_elements t) ++ tag KF (t_methods t)
  ++ tag KF (t_casts t) ++ tag KS (t_makeseqs t) ++ flat_map refs_deriv (t_derivs t) ++ tag KT (t_nested t).
Definition refs_manifest (m : manifest) : list (kind * Z) := [(KT, m_type m); (KF, m_getter m)].
Definition refs_element (e : element) : list (kind * Z) :=
  [(KT, el_type e); (KF, el_getter e); (KF, el_setter e); (KF, el_has e); (KF, el_clear e); (KF, el_del e);
   (KF, el_insert e); (KF, el_getkey e); (KF, el_length e)].
Definition refs_makeseq (s : makeseq) : list (kind * Z) := [(KF, s_lenget s); (KF, s_elemget s)].

Definition all_refs (d : db) : list (kind * Z) :=
  flat_map (fun p => refs_wrapper (snd p)) (d_wrappers d) ++ flat_map (fun p => refs_function (snd p)) (d_functions d)
  ++ flat_map (fun p => refs_type (snd p)) (d_types d) ++ flat_map (fun p => refs_manifest (snd p)) (d_manifests d)
  ++ flat_map (fun p => refs_element (snd p)) (d_elements d) ++ flat_map (fun p => refs_makeseq (snd p)) (d_makeseqs d).

(* Specification: every non-zero index stored anywhere names an existing entry of the expected kind *)
Definition closed (d : db) : Prop := forall k i, In (k, i) (all_refs d) -> i = 0 \/ In i (keys_of d k).

(* the verified checker that is run on every real database *)
Definition mem (i : Z) (l : list Z) : bool := existsb (Z.eqb i) l.
Definition closedb (d : db) : bool :=
  forallb (fun r => (snd r =? 0) || mem (snd r) (keys_of d (fst r))) (all_refs d).

Fixpoint nodupb (l : list Z) : bool := match l with [] => true | x :: t => negb (mem x t) && nodupb t end.

(* ---- remapping ---- *)
Fixpoint assoc (m : list (Z * Z)) (i : Z) : Z :=
  match m with [] => i | (a, b) :: t => if a =? i then b else assoc t i end.   (* IndexRemapper::map_from *)

Fixpoint number (first : Z) (l : list Z) : list (Z * Z) :=
  match l with [] => [] | k :: t => (k, first) :: number (first + 1) t end.

Definition rm_function (r : Z -> Z) (f : function) : function :=
  {| f_comp := f_comp f; f_flags := f_flags f; f_class := r (f_class f); f_scoped := f_scoped f;
     f_cw := map r (f_cw f); f_pw := map r (f_pw f); f_comment := f_comment f; f_proto := f_proto f |}.
Definition rm_param (r : Z -> Z) (p : param) : param := {| p_name := p_name p; p_flags := p_flags p; p_type := r (p_type p) |}.
Definition rm_wrapper (r : Z -> Z) (w : wrapper) : wrapper :=
  {| w_comp := w_comp w; w_flags := w_flags w; w_function := r (w_function w); w_rettype := r (w_rettype w);
     w_retdtor := r (w_retdtor w); w_unique := w_unique w; w_comment := w_comment w; w_params := map (rm_param r) (w_params w) |}.
Definition rm_deriv (r : Z -> Z) (x : deriv) : deriv :=
  {| dv_flags := dv_flags x; dv_base := r (dv_base x); dv_upcast := r (dv_upcast x); dv_downcast := r (dv_downcast x) |}.
Definition rm_type (r : Z -> Z) (t : type) : type :=
  {| t_comp := t_comp t; t_flags := t_flags t; t_scoped := t_scoped t; t_true := t_true t; t_outer := r (t_outer t);
     t_atomic := t_atomic t; t_wrapped := r (t_wrapped t); t_array := t_array t; t_ctors := map r (t_ctors t); t_dtor := r (t_dtor t);
     t_elements := map r (t_elements t); t_methods := map r (t_methods t); t_makeseqs := map r (t_makeseqs t);
     t_casts := map r (t_casts t); t_derivs := map (rm_deriv r) (t_derivs t); t_enums := t_enums t;
     t_nested := map r (t_nested t); t_comment := t_comment t |}.
Definition rm_manifest (r : Z -> Z) (m : manifest) : manifest :=
  {| m_comp := m_comp m; m_flags := m_flags m; m_int := m_int m; m_type := r (m_type m); m_getter := r (m_getter m); m_def := m_def m |}.
Definition rm_element (r : Z -> Z) (e : element) : element :=
  {| el_comp := el_comp e; el_flags := el_flags e; el_type := r (el_type e); el_getter := r (el_getter e); el_setter := r (el_setter e);
     el_has := r (el_has e); el_clear := r (el_clear e); el_del := r (el_del e); el_length := r (el_length e);
     el_insert := r (el_insert e); el_getkey := r (el_getkey e); el_scoped := el_scoped e; el_comment := el_comment e |}.
Definition rm_makeseq (r : Z -> Z) (s : makeseq) : makeseq :=
  {| s_comp := s_comp s; s_lenget := r (s_lenget s); s_elemget := r (s_elemget s); s_scoped := s_scoped s; s_comment := s_comment s |}.

Definition rm_section {A} (r : Z -> Z) (f : (Z -> Z) -> A -> A) (l : list (Z * A)) : list (Z * A) :=
  map (fun p => (r (fst p), f r (snd p))) l.

Definition rm_db (r : Z -> Z) (d : db) : db :=
  {| d_functions := rm_section r rm_function (d_functions d); d_wrappers := rm_section r rm_wrapper (d_wrappers d);
     d_types := rm_section r rm_type (d_types d); d_manifests := rm_section r rm_manifest (d_manifests d);
     d_elements := rm_section r rm_element (d_elements d); d_makeseqs := rm_section r rm_makeseq (d_makeseqs d) |}.

(* InterrogateDatabase::remap_indices(first_index): returns the new database and next_index *)
Definition remap (first : Z) (d : db) : db * Z :=
  let m := number first (all_keys d) in
  (rm_db (assoc m) d, first + Z.of_nat (length (all_keys d))).

Fixpoint zseq (first : Z) (n : nat) : list Z := match n with O => [] | S k => first :: zseq (first + 1) k end.

(* ---- link consistency (function <-> wrapper), checked on real databases ---- *)
Definition find {A} (l : list (Z * A)) (i : Z) : option A :=
  match List.find (fun p => fst p =? i) l with Some p => Some (snd p) | None => None end.
Definition links_ok (d : db) : Prop :=
  forall fi f, In (fi, f) (d_functions d) -> forall wi, In wi (f_cw f ++ f_pw f) ->
    exists w, find (d_wrappers d) wi = Some w /\ w_function w = fi.
Definition linksb (d : db) : bool :=
  forallb (fun p => forallb (fun wi => match find (d_wrappers d) wi with Some w => w_function w =? fst p | None => false end)
                            (f_cw (snd p) ++ f_pw (snd p))) (d_functions d).
