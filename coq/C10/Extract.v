From Coq Require Import ExtrOcamlBasic ExtrOcamlString.
From IV Require Import C10.Defs.
Extraction Language OCaml.
Extraction "ext.ml" analyze traits_of class_frag exports_default_ctor exports_copy_ctor.
