From Coq Require Import List Bool Arith Lia.
From IV Require Import C10.Defs.
Import ListNotations.

(* two summaries that answer every question alike *)
Definition summary_eq (a b : summary) : Prop :=
  s_vfuncs a = s_vfuncs b /\ s_abstract a = s_abstract b /\ s_poly a = s_poly b /\
  (forall mv, s_dflt a mv = s_dflt b mv) /\ (forall mv, s_copy a mv = s_copy b mv) /\ (forall mv, s_destr a mv = s_destr b mv).
Definition all_destr (s : summary) : Prop := forall mv, s_destr s mv = true.

Lemma lookup_rel envI envC i : Forall2 summary_eq envI envC -> summary_eq (lookup envI i) (lookup envC i).
Proof.
  intros H. revert i. induction H as [|a b ra rb Hab Hr IH]; intros i; unfold lookup.
  - destruct i; cbn; repeat split; reflexivity.
  - destruct i; cbn; [exact Hab | apply IH].
Qed.
Lemma lookup_destr env i : Forall all_destr env -> all_destr (lookup env i).
Proof.
  intros H. revert i. induction H as [|a r Ha Hr IH]; intros i; unfold lookup.
  - destruct i; intros mv; reflexivity.
  - destruct i; cbn; [exact Ha | apply IH].
Qed.

Lemma virtual_funcs_rel envI envC c : Forall2 summary_eq envI envC -> virtual_funcs envI c = virtual_funcs envC c.
Proof.
  intros H. unfold virtual_funcs.
  assert (E : flat_map (fun b => s_vfuncs (lookup envI (b_class b))) (c_bases c) =
              flat_map (fun b => s_vfuncs (lookup envC (b_class b))) (c_bases c)).
  { induction (c_bases c) as [|b r IH]; cbn; [reflexivity|]. rewrite IH. f_equal. apply (lookup_rel _ _ (b_class b) H). }
  rewrite E. reflexivity.
Qed.

Lemma forallb_ext_in {A} (f g : A -> bool) l : (forall x, In x l -> f x = g x) -> forallb f l = forallb g l.
Proof. induction l as [|a r IH]; cbn; intros H; [reflexivity|]. rewrite (H a (or_introl eq_refl)), IH; auto. Qed.

(* one class of the fragment, analysed in environments that agree and in which everything is destructible *)
Lemma analyze1_frag envI envC c :
  Forall2 summary_eq envI envC -> Forall all_destr envI -> class_frag c = true ->
  summary_eq (analyze1 Impl envI c) (analyze1 Cxx envC c) /\ all_destr (analyze1 Impl envI c).
Proof.
  intros Hrel Hd Hf. unfold class_frag in Hf.
  apply andb_true_iff in Hf as [Hf Hvb]. apply andb_true_iff in Hf as [Hf Hdt]. apply andb_true_iff in Hf as [Hff Hnc].
  apply negb_true_iff in Hnc.
  assert (HdC : Forall all_destr envC).
  { clear -Hrel Hd. induction Hrel as [|a b ra rb Hab Hr IH]; [constructor|]. inversion Hd; subst. constructor; [|now apply IH].
    intros mv. destruct Hab as (_ & _ & _ & _ & _ & E). rewrite <- E. auto. }
  (* destructibility of this class: true for every min_vis *)
  assert (DI : forall mv, s_destr (analyze1 Impl envI c) mv = true).
  { intros mv. cbn [analyze1 s_destr]. destruct (c_dtor c) as [[sp v]|].
    - destruct (sp_access sp); try discriminate. cbn in Hdt |- *. now rewrite Hdt.
    - apply andb_true_iff. split; apply forallb_forall.
      + intros b _. apply (lookup_destr _ _ Hd).
      + intros f _. unfold field_destr. destruct (f_static f); [reflexivity|].
        destruct (f_ty f); try reflexivity; unfold destr0; apply (lookup_destr _ _ Hd). }
  assert (DC : forall mv, s_destr (analyze1 Cxx envC c) mv = true).
  { intros mv. cbn [analyze1 s_destr]. destruct (c_dtor c) as [[sp v]|].
    - destruct (sp_access sp); try discriminate. cbn in Hdt |- *. now rewrite Hdt.
    - apply andb_true_iff. split; apply forallb_forall.
      + intros b _. apply (lookup_destr _ _ HdC).
      + intros f _. unfold field_destr. destruct (f_static f); [reflexivity|].
        destruct (f_ty f); try reflexivity; unfold destr0; apply (lookup_destr _ _ HdC). }
  split; [|exact DI].
  assert (Ev : virtual_funcs envI c = virtual_funcs envC c) by now apply virtual_funcs_rel.
  unfold summary_eq. cbn [analyze1 s_vfuncs s_abstract s_poly]. rewrite Ev.
  split; [reflexivity|]. split; [reflexivity|]. split; [reflexivity|].
  split; [|split].
  - (* default constructor *)
    intros mv. pose proof (DC mv) as DCm. cbn [analyze1 s_destr] in DCm. cbn [analyze1 s_dflt]. rewrite DCm, !andb_true_r.
    destruct (c_dctor c); [reflexivity|]. destruct (has_ctor c); [reflexivity|]. f_equal.
    + apply forallb_ext_in. intros b _. destruct (lookup_rel _ _ (b_class b) Hrel) as (_ & _ & _ & E & _ & _).
      rewrite (lookup_destr _ (b_class b) HdC Protected), !andb_true_r. apply E.
    + apply forallb_ext_in. intros f Hin. rewrite forallb_forall in Hff. specialize (Hff f Hin).
      unfold field_frag in Hff. unfold field_dflt. destruct (f_static f); [reflexivity|]. cbn in Hff.
      destruct (f_init f) eqn:Ei; [reflexivity|]. cbn.
      destruct (f_ty f) as [| | | |i|i]; try reflexivity; try discriminate;
        (unfold dflt0, destr0; destruct (lookup_rel _ _ i Hrel) as (_ & Ea & _ & E & _ & _); rewrite Ea, E, (lookup_destr _ i HdC Public); now rewrite !andb_true_r).
  - (* copy constructor *)
    intros mv. pose proof (DC mv) as DCm. cbn [analyze1 s_destr] in DCm. cbn [analyze1 s_copy]. rewrite Hnc, DCm. cbn [negb]. rewrite !andb_true_r.
    destruct (c_cctor c); [reflexivity|]. destruct (c_move c); [reflexivity|].
    assert (Eo : own_dtor_ok c mv = true).
    { unfold own_dtor_ok. destruct (c_dtor c) as [[sp v]|]; [|reflexivity]. destruct (sp_access sp); try discriminate. cbn in Hdt |- *. now rewrite Hdt. }
    rewrite Eo. cbn [andb]. f_equal.
    + apply forallb_ext_in. intros b _. destruct (lookup_rel _ _ (b_class b) Hrel) as (_ & _ & _ & _ & E & _).
      rewrite (lookup_destr _ (b_class b) HdC Protected), !andb_true_r. apply E.
    + apply forallb_ext_in. intros f _. unfold field_copy. destruct (f_static f); [reflexivity|].
      destruct (f_ty f) as [| | | |i|i]; try reflexivity;
        (unfold copy0, destr0; destruct (lookup_rel _ _ i Hrel) as (_ & Ea & _ & _ & E & _); rewrite Ea, E, (lookup_destr _ i HdC Public); now rewrite !andb_true_r).
  - intros mv. now rewrite DI, DC.
Qed.

Lemma analyze_frag_gen cs : forall envI envC,
  Forall2 summary_eq envI envC -> Forall all_destr envI -> forallb class_frag cs = true ->
  Forall2 summary_eq (fold_left (fun env c => env ++ [analyze1 Impl env c]) cs envI)
                     (fold_left (fun env c => env ++ [analyze1 Cxx env c]) cs envC).
Proof.
  induction cs as [|c r IH]; intros envI envC Hrel Hd Hf; cbn [fold_left]; [exact Hrel|].
  cbn in Hf. apply andb_true_iff in Hf as [Hc Hr].
  destruct (analyze1_frag envI envC c Hrel Hd Hc) as [E D]. apply IH; [|apply Forall_app; split; [exact Hd | constructor; [exact D | constructor]] | exact Hr].
  apply Forall2_app; [exact Hrel | constructor; [exact E | constructor]].
Qed.

Lemma traits_eq a b : summary_eq a b -> traits_of a = traits_of b.
Proof.
  intros (_ & Ea & Ep & Ed & Ec & Es). unfold traits_of, dflt0, copy0, destr0. now rewrite Ea, Ep, Ed, Ec, Es.
Qed.

(* Inside the fragment (no const member without initialiser, no C(C&), only public non-deleted destructors, no virtual
   bases) the implementation's judgement of every class equals the C++ rules. *)
Theorem traits_agree cs : forallb class_frag cs = true ->
  map traits_of (analyze Impl cs) = map traits_of (analyze Cxx cs).
Proof.
  intros Hf. unfold analyze. pose proof (analyze_frag_gen cs [] [] (Forall2_nil _) (Forall_nil _) Hf) as H.
  induction H as [|a b ra rb Hab Hr IH]; cbn; [reflexivity|]. now rewrite (traits_eq _ _ Hab), IH.
Qed.

(* never a constructor for an abstract class *)
Theorem abstract_no_ctor s c : s_abstract s = true -> exports_default_ctor s c = false /\ exports_copy_ctor s c = false.
Proof.
  intros H. unfold exports_default_ctor, exports_copy_ctor, dflt0, copy0. rewrite H. cbn.
  split; [destruct (c_dctor c); [reflexivity | now rewrite andb_false_r] | destruct (c_cctor c); reflexivity].
Qed.

(* witnesses for the excluded shapes: the implementation and the C++ rules differ *)
Definition mk (bs : list base) (fs : list field) (ms : list method) dc cc ccn oc mv dt : classdef :=
  {| c_bases := bs; c_fields := fs; c_methods := ms; c_dctor := dc; c_cctor := cc; c_cctor_nonconst := ccn; c_other_ctor := oc; c_move := mv; c_dtor := dt;
     c_dtor_pure := false |}.
Definition mkp (bs : list base) (dt : option (special * bool)) (pure : bool) : classdef :=
  {| c_bases := bs; c_fields := []; c_methods := []; c_dctor := None; c_cctor := None; c_cctor_nonconst := false; c_other_ctor := false; c_move := false; c_dtor := dt;
     c_dtor_pure := pure |}.
Example const_member_refuted :
  let cs := [mk [] [{| f_ty := FConstScalar; f_init := false; f_static := false |}] [] None None false false false None] in
  map traits_of (analyze Impl cs) <> map traits_of (analyze Cxx cs).
Proof. vm_compute. discriminate. Qed.
Example deleted_dtor_refuted :
  let cs := [mk [] [] [] (Some {| sp_access := Public; sp_deleted := false |}) None false false false (Some ({| sp_access := Public; sp_deleted := true |}, false))] in
  map traits_of (analyze Impl cs) <> map traits_of (analyze Cxx cs).
Proof. vm_compute. discriminate. Qed.
Example nonconst_copy_refuted :
  let cs := [mk [] [] [] None (Some {| sp_access := Public; sp_deleted := false |}) true false false None] in
  map traits_of (analyze Impl cs) <> map traits_of (analyze Cxx cs).
Proof. vm_compute. discriminate. Qed.
(* non-vacuity: a three-class hierarchy inside the fragment with an abstract base and a concrete derived class *)
Example frag_example :
  let cs := [mk [] [] [{| m_name := 0; m_sig := 0; m_virtual := true; m_pure := true; m_deleted := false |}] None None false false false None;
             mk [{| b_class := 0; b_access := Public; b_virtual := false |}] [{| f_ty := FRef; f_init := false; f_static := false |}]
                [{| m_name := 0; m_sig := 0; m_virtual := false; m_pure := false; m_deleted := false |}] None None false false false None;
             mk [{| b_class := 1; b_access := Protected; b_virtual := false |}] [{| f_ty := FClass 1; f_init := false; f_static := false |}] [] 
                (Some {| sp_access := Public; sp_deleted := false |}) None false false false None] in
  forallb class_frag cs = true /\
  map traits_of (analyze Impl cs) =
    [ {| t_abstract := true; t_poly := true; t_dflt := false; t_copy := false; t_destr := true |};
      {| t_abstract := false; t_poly := true; t_dflt := false; t_copy := true; t_destr := true |};
      {| t_abstract := false; t_poly := true; t_dflt := true; t_copy := true; t_destr := true |} ].
Proof. vm_compute. split; reflexivity. Qed.

(* a pure virtual destructor: B { virtual ~B() = 0; }  D : B { }  E : B { ~E(); }  F : B { virtual ~F() = 0; }.
   Only B and F are abstract (D's implicit destructor overrides B's); inside the fragment, so the implementation agrees.  *)
Definition pure_dtor_classes : list classdef :=
  let pub := {| sp_access := Public; sp_deleted := false |} in
  let fromB := [{| b_class := 0; b_access := Public; b_virtual := false |}] in
  [mkp [] (Some (pub, true)) true; mkp fromB None false; mkp fromB (Some (pub, false)) false; mkp fromB (Some (pub, true)) true].
Example pure_dtor_example :
  forallb class_frag pure_dtor_classes = true /\
  map (fun s => (s_abstract s, s_poly s)) (analyze Impl pure_dtor_classes) = [(true, true); (false, true); (false, true); (true, true)].
Proof. vm_compute. split; reflexivity. Qed.
(* the pinned get_pure_virtual_funcs counted the inherited entry: D was reported abstract *)
Theorem inherited_pure_dtor_pinned_refuted :
  exists cs i, forallb class_frag cs = true /\
    abstract_pinned (s_vfuncs (lookup (analyze Impl cs) i)) = true /\ s_abstract (lookup (analyze Cxx cs) i) = false.
Proof. exists pure_dtor_classes, 1. vm_compute. repeat split; reflexivity. Qed.

(* an abstract class always has a pure entry in its list: the repair only removes inherited destructors *)
Lemma abstract_implies_pinned md env c : s_abstract (analyze1 md env c) = true -> abstract_pinned (s_vfuncs (analyze1 md env c)) = true.
Proof.
  cbn [analyze1 s_abstract s_vfuncs]. unfold abstract_pinned. rewrite !existsb_exists.
  intros (f & Hin & Hp). exists f. split; [exact Hin|]. unfold counts_pure in Hp. apply andb_true_iff in Hp. tauto.
Qed.
