(* C10 — implicit special members and class traits: CPPStructType::is_abstract / is_default_constructible /
   is_copy_constructible / is_destructible / is_polymorphic (after the abstract-base repair), and the C++ rules.
   A class table lists classes in definition order; bases and class-typed members refer to EARLIER entries.  No proofs. *)
From Coq Require Import List Bool Arith.
Import ListNotations.

Inductive access := Public | Protected | Private.
Definition accessible (a min_vis : access) : bool :=       (* !(vis > min_vis) *)
  match a, min_vis with
  | Public, _ => true
  | Protected, Public => false | Protected, _ => true
  | Private, Private => true | Private, _ => false
  end.

Record special := { sp_access : access; sp_deleted : bool }.
Inductive ftype := FScalar | FConstScalar | FRef | FRRef | FClass (c : nat) | FConstClass (c : nat).
Record field := { f_ty : ftype; f_init : bool; f_static : bool }.
Record method := { m_name : nat; m_sig : nat; m_virtual : bool; m_pure : bool; m_deleted : bool }.
Record base := { b_class : nat; b_access : access; b_virtual : bool }.
Record classdef := {
  c_bases : list base;
  c_fields : list field;
  c_methods : list method;
  c_dctor : option special;          (* user-declared constructor callable without arguments *)
  c_cctor : option special;          (* user-declared copy constructor  C(const C &) *)
  c_cctor_nonconst : bool;           (* ... whose parameter is C & (not const) *)
  c_other_ctor : bool;               (* some other user-declared constructor *)
  c_move : bool;                     (* user-declared move constructor *)
  c_dtor : option (special * bool);  (* user-declared destructor, virtual? *)
  c_dtor_pure : bool                 (* ... declared  = 0  (only with a virtual destructor) *)
}.

(* a virtual function as get_virtual_funcs lists it *)
Record vfunc := { vf_name : nat; vf_sig : nat; vf_pure : bool; vf_dtor : bool }.

Record summary := {
  s_vfuncs : list vfunc;
  s_abstract : bool;
  s_poly : bool;
  s_dflt : access -> bool;       (* is_default_constructible(min_vis), no abstract test *)
  s_copy : access -> bool;
  s_destr : access -> bool
}.

Inductive mode := Impl | Cxx.

Definition lookup (env : list summary) (i : nat) : summary :=
  nth i env {| s_vfuncs := []; s_abstract := false; s_poly := false; s_dflt := fun _ => true; s_copy := fun _ => true; s_destr := fun _ => true |}.

(* the public, no-argument predicates: abstract classes are not constructible *)
Definition dflt0 (s : summary) : bool := negb (s_abstract s) && s_dflt s Public.
Definition copy0 (s : summary) : bool := negb (s_abstract s) && s_copy s Public.
Definition destr0 (s : summary) : bool := s_destr s Public.

Definition overrides (ms : list method) (f : vfunc) : bool :=
  existsb (fun m => Nat.eqb (m_name m) (vf_name f) && Nat.eqb (m_sig m) (vf_sig f)) ms.

(* get_virtual_funcs *)
Definition virtual_funcs (env : list summary) (c : classdef) : list vfunc :=
  let inherited := flat_map (fun b => s_vfuncs (lookup env (b_class b))) (c_bases c) in
  let has_dtor := match c_dtor c with Some _ => true | None => false end in
  let kept := filter (fun f => if vf_dtor f then negb has_dtor else negb (overrides (c_methods c) f)) inherited in
  let inferred (m : method) := m_virtual m || existsb (fun f => negb (vf_dtor f) && Nat.eqb (m_name m) (vf_name f) && Nat.eqb (m_sig m) (vf_sig f)) inherited in
  let own := map (fun m => {| vf_name := m_name m; vf_sig := m_sig m; vf_pure := m_pure m; vf_dtor := false |})
                 (filter (fun m => inferred m && negb (m_deleted m)) (c_methods c)) in
  let dtor_virtual := match c_dtor c with
                      | Some (sp, v) => (v || existsb vf_dtor inherited) && negb (sp_deleted sp)
                      | None => false end in
  kept ++ own ++ (if dtor_virtual then [{| vf_name := 0; vf_sig := 0; vf_pure := c_dtor_pure c; vf_dtor := true |}] else []).

(* get_pure_virtual_funcs: a pure virtual destructor listed from a base (the class declares none itself) is overridden by the
   implicitly declared destructor and does not make the class abstract.  The pinned code counted it. *)
Definition counts_pure (c : classdef) (f : vfunc) : bool :=
  vf_pure f && negb (vf_dtor f && match c_dtor c with Some _ => false | None => true end).
Definition abstract_pinned (vfs : list vfunc) : bool := existsb vf_pure vfs.

Definition field_dflt (md : mode) (env : list summary) (f : field) : bool :=
  if f_static f || f_init f then true else
  match f_ty f with
  | FScalar => true
  | FConstScalar => match md with Impl => true | Cxx => false end      (* a const member needs an initialiser *)
  | FRef | FRRef => false
  | FClass i => dflt0 (lookup env i) && match md with Impl => true | Cxx => destr0 (lookup env i) end
  | FConstClass i => dflt0 (lookup env i) && match md with Impl => true | Cxx => destr0 (lookup env i) end
  end.
Definition field_copy (md : mode) (env : list summary) (f : field) : bool :=
  if f_static f then true else
  match f_ty f with
  | FScalar | FConstScalar | FRef => true
  | FRRef => false
  | FClass i | FConstClass i => copy0 (lookup env i) && match md with Impl => true | Cxx => destr0 (lookup env i) end
  end.
Definition field_destr (env : list summary) (f : field) : bool :=
  if f_static f then true else
  match f_ty f with FClass i | FConstClass i => destr0 (lookup env i) | _ => true end.

Definition has_ctor (c : classdef) : bool :=
  match c_dctor c, c_cctor c with None, None => c_other_ctor c || c_move c | _, _ => true end.

Definition own_dtor_ok (c : classdef) (mv : access) : bool :=
  match c_dtor c with Some (sp, _) => accessible (sp_access sp) mv && negb (sp_deleted sp) | None => true end.

Definition analyze1 (md : mode) (env : list summary) (c : classdef) : summary :=
  let vfs := virtual_funcs env c in
  let destr := fun mv =>
    match c_dtor c with
    | Some (sp, _) => accessible (sp_access sp) mv && negb (sp_deleted sp)
    | None => forallb (fun b => s_destr (lookup env (b_class b)) Protected) (c_bases c) && forallb (field_destr env) (c_fields c)
    end in
  let dflt := fun mv =>
    match c_dctor c with
    | Some sp => accessible (sp_access sp) mv && negb (sp_deleted sp)
    | None =>
        if has_ctor c then false else
        forallb (fun b => s_dflt (lookup env (b_class b)) Protected &&
                          match md with Impl => true | Cxx => s_destr (lookup env (b_class b)) Protected end) (c_bases c)
        && forallb (field_dflt md env) (c_fields c)
    end && match md with Impl => true | Cxx => destr mv end in          (* constructing needs a usable destructor *)
  let copy := fun mv =>
    match c_cctor c with
    | Some sp => accessible (sp_access sp) mv && negb (sp_deleted sp) &&
                 match md with Impl => true | Cxx => negb (c_cctor_nonconst c) && destr mv end
    | None =>
        if c_move c then false else
        match md with Impl => own_dtor_ok c mv | Cxx => destr mv end &&
        forallb (fun b => s_copy (lookup env (b_class b)) Protected &&
                          match md with Impl => true | Cxx => s_destr (lookup env (b_class b)) Protected end) (c_bases c)
        && forallb (field_copy md env) (c_fields c)
    end in
  {| s_vfuncs := vfs; s_abstract := existsb (counts_pure c) vfs; s_poly := negb (match vfs with [] => true | _ => false end);
     s_dflt := dflt; s_copy := copy; s_destr := destr |}.

Definition analyze (md : mode) (cs : list classdef) : list summary :=
  fold_left (fun env c => env ++ [analyze1 md env c]) cs [].

(* what is reported / exported for class i *)
Record traits := { t_abstract : bool; t_poly : bool; t_dflt : bool; t_copy : bool; t_destr : bool }.
Definition traits_of (s : summary) : traits :=
  {| t_abstract := s_abstract s; t_poly := s_poly s; t_dflt := dflt0 s; t_copy := copy0 s; t_destr := destr0 s |}.

(* define_struct_type / get_function: implicit constructors are synthesised exactly when the predicates say so *)
Definition exports_default_ctor (s : summary) (c : classdef) : bool :=
  match c_dctor c with None => negb (has_ctor c) && dflt0 s | Some _ => false end.
Definition exports_copy_ctor (s : summary) (c : classdef) : bool :=
  match c_cctor c with None => copy0 s | Some _ => false end.

(* ---- the fragment on which the implementation follows the C++ rules ---- *)
Definition field_frag (f : field) : bool :=
  f_static f || match f_ty f with FConstScalar => f_init f | _ => true end.
Definition class_frag (c : classdef) : bool :=
  forallb field_frag (c_fields c) && negb (c_cctor_nonconst c) &&
  match c_dtor c with Some (sp, _) => match sp_access sp with Public => negb (sp_deleted sp) | _ => false end | None => true end &&
  forallb (fun b => negb (b_virtual b)) (c_bases c).
