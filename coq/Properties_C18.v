(* C18 — property theorems only (PARTIAL: the end-to-end round-trip theorem of Grisu2 is not proved; see DESIGN.md). *)
From Coq Require Import ZArith List Bool.
From IV Require Import C18.Table C18.Defs C18.Proofs.
Import ListNotations.
Local Open Scope Z_scope.

(* Prettify is exact: whatever digits and decimal exponent DigitGen produced, the text shape chosen
   (integer with trailing zeros, fixed point, 0.000ddd, scientific) denotes digits * 10^k. *)
Theorem c18_prettify_exact : forall ds k, ds <> [] -> same_value (pretty_value (prettify ds k)) (dval ds, k).
Proof. exact prettify_exact. Qed.
Print Assumptions c18_prettify_exact.

(* every one of the 87 cached powers is the 64-bit normalised value nearest to 10^(-348+8i) *)
Theorem c18_cached_powers : forall i, (i < 87)%nat -> entry_ok i = true.
Proof. exact cached_powers_accurate. Qed.
Print Assumptions c18_cached_powers.

(* for every exponent a normalised boundary of a finite double can have, the power selected by GetCachedPower exists in
   the table and puts the product exponent in DigitGen's window [-60, -32] *)
Theorem c18_k_in_window : forall e, -1140 <= e <= 962 -> window_ok e = true.
Proof. exact k_in_window. Qed.
Print Assumptions c18_k_in_window.

(* the double-precision computation of the index has the same ceiling as the exact one used in the model *)
Theorem c18_k_margin : forall e, -1140 <= e <= 962 -> margin_ok e = true.
Proof. exact k_margin. Qed.
Print Assumptions c18_k_margin.
