(* C13 — loading several database files: InterrogateDatabase::read (remap to a fresh range) and merge_from
   (types with equal true name are identified, InterrogateType::merge_with decides which definition stays).  No proofs. *)
From Coq Require Import ZArith List Bool Ascii.
From IV Require Import Common.Int32 C12.Codec C12.Defs C11.Defs.
Import ListNotations.
Local Open Scope Z_scope.

Fixpoint bytes_eqb (a b : bytes) : bool :=
  match a, b with
  | [], [] => true
  | x :: a', y :: b' => (N_of_ascii x =? N_of_ascii y)%N && bytes_eqb a' b'
  | _, _ => false
  end.
Definition nonempty (s : bytes) : bool := match s with [] => false | _ => true end.

Definition F_global_bit : Z := 0.          (* InterrogateType::F_global = 0x000001 *)
Definition F_fully_bit : Z := 13.          (* InterrogateType::F_fully_defined = 0x002000 *)
Definition is_global (t : type) : bool := Z.testbit (t_flags t) F_global_bit.
Definition is_fully (t : type) : bool := Z.testbit (t_flags t) F_fully_bit.
Definition set_flags (t : type) (fl : Z) : type :=
  {| t_comp := t_comp t; t_flags := fl; t_scoped := t_scoped t; t_true := t_true t; t_outer := t_outer t; t_atomic := t_atomic t;
     t_wrapped := t_wrapped t; t_array := t_array t; t_ctors := t_ctors t; t_dtor := t_dtor t; t_elements := t_elements t;
     t_methods := t_methods t; t_makeseqs := t_makeseqs t; t_casts := t_casts t; t_derivs := t_derivs t; t_enums := t_enums t;
     t_nested := t_nested t; t_comment := t_comment t |}.

(* InterrogateType::merge_with: returns the surviving record and whether "we" (true) or "they" (false) won *)
Definition merge_with (this other : type) : type * bool :=
  if is_fully this && (negb (is_fully other) || negb (is_global other))
  then (set_flags this (Z.lor (t_flags this) (Z.land (t_flags other) 1)), true)
  else (set_flags other (Z.lor (t_flags other) (Z.land (t_flags this) 1)), false).

(* types_by_name of the receiving database: std::map, a later type with the same true name overwrites *)
Fixpoint name_lookup (ts : list (Z * type)) (n : bytes) (acc : option Z) : option Z :=
  match ts with
  | [] => acc
  | (i, t) :: r => name_lookup r n (if nonempty (t_true t) && bytes_eqb (t_true t) n then Some i else acc)
  end.

(* the IndexRemapper built by merge_from: other type index -> receiving type index *)
Fixpoint type_mapping (mine theirs : list (Z * type)) : list (Z * Z) :=
  match theirs with
  | [] => []
  | (i, t) :: r =>
      match (if nonempty (c_name (t_comp t)) then name_lookup mine (t_true t) None else None) with
      | Some j => (i, j) :: type_mapping mine r
      | None => type_mapping mine r
      end
  end.

Fixpoint replace_type (ts : list (Z * type)) (j : Z) (f : type -> type) : list (Z * type) :=
  match ts with
  | [] => []
  | (i, t) :: r => if i =? j then (i, f t) :: r else (i, t) :: replace_type r j f
  end.

Definition in_mapping (m : list (Z * Z)) (i : Z) : bool := existsb (fun p => fst p =? i) m.

(* the type loop of merge_from; the receiving map is kept sorted by index like std::map *)
Fixpoint insert_sorted {A} (l : list (Z * A)) (i : Z) (a : A) : list (Z * A) :=
  match l with
  | [] => [(i, a)]
  | (k, b) :: r => if i <? k then (i, a) :: (k, b) :: r else if i =? k then (k, a) :: r else (k, b) :: insert_sorted r i a
  end.

Fixpoint merge_types (m : list (Z * Z)) (mine theirs : list (Z * type)) : list (Z * type) :=
  match theirs with
  | [] => mine
  | (i, t) :: r =>
      let t' := rm_type (assoc m) t in
      if in_mapping m i
      then merge_types m (replace_type mine (assoc m i) (fun this => fst (merge_with this t'))) r
      else merge_types m (insert_sorted mine i t') r
  end.

Definition add_section {A} (rm : A -> A) (mine theirs : list (Z * A)) : list (Z * A) :=
  fold_left (fun acc p => insert_sorted acc (fst p) (rm (snd p))) theirs mine.

(* InterrogateDatabase::merge_from(other): other has already been remapped into a fresh index range *)
Definition merge_from (a b : db) : db :=
  let m := type_mapping (d_types a) (d_types b) in
  let r := assoc m in
  {| d_functions := add_section (rm_function r) (d_functions a) (d_functions b);
     d_wrappers := add_section (rm_wrapper r) (d_wrappers a) (d_wrappers b);
     d_types := merge_types m (d_types a) (d_types b);
     d_manifests := add_section (rm_manifest r) (d_manifests a) (d_manifests b);
     d_elements := add_section (rm_element r) (d_elements a) (d_elements b);
     d_makeseqs := add_section (rm_makeseq r) (d_makeseqs a) (d_makeseqs b) |}.

(* read(): decode (done by C12), remap to the range starting at next_index, merge *)
Definition load_one (st : db * Z) (file : db) : db * Z :=
  let '(cur, next) := st in
  let '(f', next') := remap next file in
  (merge_from cur f', next').

Definition empty_db : db := {| d_functions := []; d_wrappers := []; d_types := []; d_manifests := []; d_elements := []; d_makeseqs := [] |}.
Definition load_all (files : list db) : db * Z := fold_left load_one files (empty_db, 1).
