(* C13 — lazy loading: interrogate_request_database / request_module only queue a file; every accessor that answers a question about the
   database content first calls check_latest(), which reads what is queued.  The table of accessors is GENERATED from the source under test
   (C13/Generated.v); the theorem needs every function of the query interface to flush. *)
From Coq Require Import List String Bool Arith.
From IV Require Import C13.Generated.
Import ListNotations.
Local Open Scope string_scope.

(* the query interface of the database: every member function that interrogate_interface.cxx forwards to (GENERATED list), except the two
   that look into the module tables registered at start-up, not into the database content *)
Definition module_level : list string := ["get_fptr"; "get_wrapper_by_unique_name"].
Definition query_api : list string :=
  filter (fun n => negb (existsb (String.eqb n) module_level)) interface_uses.

Definition flushes_in (tbl : list (string * bool)) (name : string) : bool :=
  match find (fun p => String.eqb (fst p) name) tbl with Some p => snd p | None => false end.

(* ---- the state machine ---- *)
Section Machine.
  Variable file : Type.
  Variable answer : Type.
  Variable ask : string -> list file -> answer.       (* what accessor [name] answers on a database made of these files, in load order *)
  Variable tbl : list (string * bool).

  Record st := { loaded : list file; pending : list file }.
  Inductive op := Request (f : file) | Query (name : string).

  Definition step (s : st) (o : op) : st * option answer :=
    match o with
    | Request f => ({| loaded := loaded s; pending := pending s ++ [f] |}, None)
    | Query name =>
        let s' := if flushes_in tbl name then {| loaded := loaded s ++ pending s; pending := [] |} else s in
        (s', Some (ask name (loaded s')))
    end.

  Fixpoint run (s : st) (ops : list op) : list (option answer) :=
    match ops with [] => [] | o :: r => let (s', a) := step s o in a :: run s' r end.

  (* the specification: every query is answered on everything requested before it *)
  Fixpoint spec (requested : list file) (ops : list op) : list (option answer) :=
    match ops with
    | [] => []
    | Request f :: r => None :: spec (requested ++ [f]) r
    | Query name :: r => Some (ask name requested) :: spec requested r
    end.

  Definition uses_api (ops : list op) : Prop := forall name, In (Query name) ops -> In name query_api.

  Theorem lazy_is_invisible :
    forallb (flushes_in tbl) query_api = true ->
    forall ops s, uses_api ops -> run s ops = spec (loaded s ++ pending s) ops.
  Proof.
    intros Hall. rewrite forallb_forall in Hall.
    induction ops as [|o r IH]; intros s Hu; [reflexivity|].
    assert (Hr : uses_api r) by (intros n Hn; apply Hu; right; exact Hn).
    destruct o as [f|name]; cbn [run step spec].
    - f_equal. rewrite (IH _ Hr). cbn [loaded pending]. rewrite app_assoc. reflexivity.
    - assert (Hf : flushes_in tbl name = true) by (apply Hall, Hu; left; reflexivity).
      rewrite Hf. cbn [loaded pending]. f_equal. rewrite (IH _ Hr). cbn [loaded pending]. rewrite app_nil_r. reflexivity.
  Qed.
End Machine.

(* THE OBLIGATION against the source under test: every function of the query interface flushes *)
Lemma query_api_flushes : forallb (flushes_in accessors) query_api = true.
Proof. vm_compute. reflexivity. Qed.

Theorem lazy_loading_invisible (file answer : Type) (ask : string -> list file -> answer) :
  forall ops s, uses_api file ops -> run file answer ask accessors s ops = spec file answer ask (loaded file s ++ pending file s) ops.
Proof. apply lazy_is_invisible. exact query_api_flushes. Qed.

(* an accessor that does not flush answers from the old database: request a file, ask at once *)
Example stale_without_flush :
  let tbl := [("lookup_type_by_true_name", false)] in
  let ask := fun (_ : string) (fs : list nat) => List.length fs in
  run nat nat ask tbl {| loaded := []; pending := [] |} [Request nat 7; Query nat "lookup_type_by_true_name"] = [None; Some 0]
  /\ spec nat nat ask [] [Request nat 7; Query nat "lookup_type_by_true_name"] = [None; Some 1].
Proof. split; reflexivity. Qed.
