From Coq Require Import ZArith List Bool Ascii Lia.
From IV Require Import Common.Int32 C12.Codec C12.Defs C11.Defs C11.Proofs C13.Defs.
Import ListNotations.
Local Open Scope Z_scope.

(* ---------------- insert_sorted / add_section ---------------- *)
Lemma in_insert_sorted {A} (l : list (Z * A)) i a p : In p (insert_sorted l i a) -> p = (i, a) \/ In p l.
Proof.
  induction l as [|[k b] r IH]; cbn; [intuition|].
  destruct (i <? k); cbn; [intuition|]. destruct (i =? k) eqn:E; cbn.
  - apply Z.eqb_eq in E. subst. intuition.
  - intros [H|H]; [auto | destruct (IH H); auto].
Qed.
Lemma keys_insert_sorted {A} (l : list (Z * A)) i a x : In x (keys (insert_sorted l i a)) <-> x = i \/ In x (keys l).
Proof.
  unfold keys. induction l as [|[k b] r IH]; cbn; [intuition|].
  destruct (i <? k); cbn; [intuition|]. destruct (i =? k) eqn:E; cbn.
  - apply Z.eqb_eq in E. subst. intuition.
  - rewrite IH. intuition.
Qed.

Lemma in_add_section {A} (f : A -> A) : forall theirs mine p,
  In p (add_section f mine theirs) -> In p mine \/ exists t0, In (fst p, t0) theirs /\ snd p = f t0.
Proof.
  unfold add_section. induction theirs as [|[i t] r IH]; intros mine p H; cbn in H; [now left|].
  destruct (IH _ _ H) as [H1|(t0 & H1 & H2)].
  - apply in_insert_sorted in H1 as [->|H1]; [right; exists t; cbn; auto | now left].
  - right. exists t0. cbn. auto.
Qed.
Lemma keys_add_section {A} (f : A -> A) : forall theirs mine x,
  In x (keys (add_section f mine theirs)) <-> In x (keys mine) \/ In x (keys theirs).
Proof.
  unfold add_section. induction theirs as [|[i t] r IH]; intros mine x; cbn [fold_left].
  - cbn. tauto.
  - rewrite IH, keys_insert_sorted. change (keys ((i, t) :: r)) with (i :: keys r). cbn [fst In]. intuition.
Qed.

(* ---------------- the type mapping ---------------- *)
Lemma name_lookup_in ts n : forall acc j, name_lookup ts n acc = Some j -> acc = Some j \/ In j (keys ts).
Proof.
  induction ts as [|[i t] r IH]; intros acc j H; cbn in H; [now left|].
  destruct (IH _ _ H) as [H1|H1]; [|right; now right].
  destruct (nonempty (t_true t) && bytes_eqb (t_true t) n); [inversion H1; right; now left | now left].
Qed.

Lemma type_mapping_spec mine theirs i j : In (i, j) (type_mapping mine theirs) -> In i (keys theirs) /\ In j (keys mine).
Proof.
  induction theirs as [|[k t] r IH]; cbn; [intros []|].
  destruct (if nonempty (c_name (t_comp t)) then name_lookup mine (t_true t) None else None) as [j0|] eqn:E.
  - intros [H|H].
    + inversion H; subst. split; [now left|].
      destruct (nonempty (c_name (t_comp t))); [|discriminate]. destruct (name_lookup_in _ _ _ _ E) as [H1|H1]; [discriminate | exact H1].
    + destruct (IH H). split; [now right | assumption].
  - intros H. destruct (IH H). split; [now right | assumption].
Qed.

Lemma in_mapping_true m i : in_mapping m i = true -> exists j, In (i, j) m /\ assoc m i = j.
Proof.
  induction m as [|[a b] r IH]; cbn; [discriminate|].
  destruct (a =? i) eqn:E; cbn.
  - apply Z.eqb_eq in E. subst. intros _. exists b. auto.
  - intros H. destruct (IH H) as (j & Hj & Ej). exists j. auto.
Qed.
Lemma in_mapping_false m i : in_mapping m i = false -> assoc m i = i.
Proof.
  induction m as [|[a b] r IH]; cbn; [reflexivity|].
  destruct (a =? i); cbn; [discriminate | exact IH].
Qed.

(* ---------------- merge_types ---------------- *)
Lemma refs_set_flags t fl : refs_type (set_flags t fl) = refs_type t.
Proof. reflexivity. Qed.

Lemma refs_merge_with this other : refs_type (fst (merge_with this other)) = refs_type this \/
                                   refs_type (fst (merge_with this other)) = refs_type other.
Proof. unfold merge_with. destruct (is_fully this && _); cbn [fst]; rewrite refs_set_flags; auto. Qed.

Lemma in_replace_type ts j f p : In p (replace_type ts j f) -> In p ts \/ exists t, In (fst p, t) ts /\ fst p = j /\ snd p = f t.
Proof.
  induction ts as [|[i t] r IH]; cbn; [intros []|].
  destruct (i =? j) eqn:E.
  - apply Z.eqb_eq in E. subst. intros [<-|H]; [right; exists t; cbn; auto | left; now right].
  - intros [<-|H]; [left; now left|]. destruct (IH H) as [H1|(t0 & H1 & H2)]; [left; now right | right; exists t0; auto].
Qed.
Lemma keys_replace_type ts j f : keys (replace_type ts j f) = keys ts.
Proof.
  unfold keys. induction ts as [|[i t] r IH]; cbn; [reflexivity|]. destruct (i =? j); cbn; now rewrite ?IH.
Qed.

Lemma merge_types_spec m : forall theirs mine p, In p (merge_types m mine theirs) ->
  (exists t0, In (fst p, t0) mine /\ refs_type (snd p) = refs_type t0) \/
  (exists i0 t0, In (i0, t0) theirs /\ refs_type (snd p) = refs_type (rm_type (assoc m) t0)).
Proof.
  induction theirs as [|[i t] r IH]; intros mine p H; cbn [merge_types] in H.
  - left. exists (snd p). destruct p; auto.
  - destruct (in_mapping m i).
    + destruct (IH _ _ H) as [(t0 & H1 & H2)|(i0 & t0 & H1 & H2)].
      * apply in_replace_type in H1 as [H1|(t1 & H1 & Hj & Ht)]; [left; eauto|].
        cbn [snd] in Ht. subst t0. destruct (refs_merge_with t1 (rm_type (assoc m) t)) as [E|E]; rewrite E in H2.
        -- left. eauto.
        -- right. exists i, t. split; [now left | exact H2].
      * right. exists i0, t0. split; [now right | exact H2].
    + destruct (IH _ _ H) as [(t0 & H1 & H2)|(i0 & t0 & H1 & H2)].
      * apply in_insert_sorted in H1 as [H1|H1]; [|left; eauto].
        injection H1 as _ Et. subst t0. right. exists i, t. split; [now left | exact H2].
      * right. exists i0, t0. split; [now right | exact H2].
Qed.

Lemma merge_types_keys m : forall theirs mine x,
  (In x (keys mine) \/ exists t, In (x, t) theirs /\ in_mapping m x = false) -> In x (keys (merge_types m mine theirs)).
Proof.
  induction theirs as [|[i t] r IH]; intros mine x H; cbn [merge_types].
  - destruct H as [H|(t & [] & _)]. exact H.
  - destruct (in_mapping m i) eqn:E.
    + apply IH. destruct H as [H|(t0 & [H|H] & Hm)].
      * left. now rewrite keys_replace_type.
      * inversion H; subst. congruence.
      * right. eauto.
    + apply IH. destruct H as [H|(t0 & [H|H] & Hm)].
      * left. apply keys_insert_sorted. now right.
      * inversion H; subst. left. apply keys_insert_sorted. now left.
      * right. eauto.
Qed.

(* ---------------- closure of the merged database ---------------- *)
Lemma in_keys {A} (l : list (Z * A)) i a : In (i, a) l -> In i (keys l).
Proof. intros H. unfold keys. apply in_map_iff. now exists (i, a). Qed.

Lemma flat_section {A} (g : A -> list (kind * Z)) f r mine theirs p :
  (forall x, g (f x) = map (rmref r) (g x)) ->
  In p (flat_map (fun q => g (snd q)) (add_section f mine theirs)) ->
  In p (flat_map (fun q => g (snd q)) mine) \/ exists q, In q (flat_map (fun q => g (snd q)) theirs) /\ p = rmref r q.
Proof.
  intros Hg H. apply in_flat_map in H as ([i a] & Hin & Hp). cbn in Hp.
  apply in_add_section in Hin as [Hin|(t0 & Hin & Ha)].
  - left. apply in_flat_map. exists (i, a). auto.
  - cbn in Ha. subst a. rewrite Hg in Hp. apply in_map_iff in Hp as (q & <- & Hq).
    right. exists q. split; [|reflexivity]. apply in_flat_map. exists (i, t0). auto.
Qed.

Definition kinds_disjoint (d : db) : Prop := NoDup (all_keys d).

Lemma all_keys_in d k i : In i (keys_of d k) -> In i (all_keys d).
Proof.
  unfold all_keys. destruct k; cbn [keys_of]; intros H.
  - apply in_or_app; now left.
  - apply in_or_app; right. apply in_or_app; now left.
  - do 2 (apply in_or_app; right). apply in_or_app; now left.
  - do 3 (apply in_or_app; right). apply in_or_app; now left.
  - do 4 (apply in_or_app; right). apply in_or_app; now left.
  - do 5 (apply in_or_app; right). exact H.
Qed.

(* an index that is a key of kind k and also a type key must be of kind KT *)
Lemma nodup_app_disjoint {A} (l1 l2 : list A) x : NoDup (l1 ++ l2) -> In x l1 -> In x l2 -> False.
Proof.
  induction l1 as [|a r IH]; cbn; intros Hn H1 H2; [contradiction|].
  inversion Hn; subst. destruct H1 as [->|H1]; [apply H3; apply in_or_app; now right | now apply IH].
Qed.

Lemma NoDup_app_remove_l {A} (l1 l2 : list A) : NoDup (l1 ++ l2) -> NoDup l2.
Proof. induction l1 as [|a r IH]; cbn; [auto|]. intros H. inversion H; auto. Qed.

Lemma type_key_kind d k i : kinds_disjoint d -> In i (keys (d_types d)) -> In i (keys_of d k) -> k = KT.
Proof.
  unfold kinds_disjoint, all_keys. intros Hn Ht Hk.
  set (W := keys (d_wrappers d)) in *. set (F := keys (d_functions d)) in *. set (T := keys (d_types d)) in *.
  set (M := keys (d_manifests d)) in *. set (E := keys (d_elements d)) in *. set (S := keys (d_makeseqs d)) in *.
  destruct k; cbn in Hk; fold W F T M E S in Hk; try reflexivity; exfalso.
  - apply (nodup_app_disjoint W (F ++ T ++ M ++ E ++ S) i Hn Hk). apply in_or_app; right. apply in_or_app; now left.
  - apply NoDup_app_remove_l in Hn. apply (nodup_app_disjoint F (T ++ M ++ E ++ S) i Hn Hk). apply in_or_app; now left.
  - apply NoDup_app_remove_l in Hn. apply NoDup_app_remove_l in Hn.
    apply (nodup_app_disjoint T (M ++ E ++ S) i Hn Ht). apply in_or_app; now left.
  - apply NoDup_app_remove_l in Hn. apply NoDup_app_remove_l in Hn.
    apply (nodup_app_disjoint T (M ++ E ++ S) i Hn Ht). apply in_or_app; right. apply in_or_app; now left.
  - apply NoDup_app_remove_l in Hn. apply NoDup_app_remove_l in Hn.
    apply (nodup_app_disjoint T (M ++ E ++ S) i Hn Ht). apply in_or_app; right. apply in_or_app; now right.
Qed.

Lemma keys_of_merge a b k x :
  In x (keys_of a k) \/ (In x (keys_of b k) /\ (k = KT -> in_mapping (type_mapping (d_types a) (d_types b)) x = false)) ->
  In x (keys_of (merge_from a b) k).
Proof.
  intros H. unfold merge_from. destruct k; cbn [keys_of d_functions d_wrappers d_types d_manifests d_elements d_makeseqs];
    try (apply keys_add_section; destruct H as [H|[H _]]; auto).
  apply merge_types_keys. destruct H as [H|[H Hm]]; [now left|]. right.
  cbn in H. unfold keys in H. apply in_map_iff in H as ([i t] & <- & Hin). exists t. split; [exact Hin | now apply Hm].
Qed.

(* every cross reference is carried over to the merged indices *)
Theorem merge_closed a b :
  closed a -> closed b -> kinds_disjoint b -> ~ In 0 (all_keys b) -> closed (merge_from a b).
Proof.
  intros Ca Cb Hnd H0 k i Hin.
  set (m := type_mapping (d_types a) (d_types b)). set (r := assoc m).
  (* every reference of the result is a reference of a, or the image of a reference of b *)
  assert (Hsrc : In (k, i) (all_refs a) \/ exists i0, In (k, i0) (all_refs b) /\ i = r i0).
  { unfold all_refs, merge_from in Hin. cbn [d_functions d_wrappers d_types d_manifests d_elements d_makeseqs] in Hin.
    fold m r in Hin.
    repeat (apply in_app_or in Hin as [Hin|Hin]).
    - destruct (flat_section refs_wrapper (rm_wrapper r) r _ _ _ (refs_rm_wrapper r) Hin) as [H|((k0, i0) & H & E)].
      + left. unfold all_refs. apply in_or_app. now left.
      + inversion E; subst. right. exists i0. split; [|reflexivity]. unfold all_refs. apply in_or_app. now left.
    - destruct (flat_section refs_function (rm_function r) r _ _ _ (refs_rm_function r) Hin) as [H|((k0, i0) & H & E)].
      + left. unfold all_refs. apply in_or_app; right. apply in_or_app. now left.
      + inversion E; subst. right. exists i0. split; [|reflexivity]. unfold all_refs. apply in_or_app; right. apply in_or_app. now left.
    - apply in_flat_map in Hin as ([j t] & Hj & Hp). cbn [snd] in Hp.
      apply merge_types_spec in Hj as [(t0 & H1 & H2)|(j0 & t0 & H1 & H2)]; cbn [fst snd] in H1, H2; rewrite H2 in Hp.
      + left. unfold all_refs. apply in_or_app; right. apply in_or_app; right. apply in_or_app; left.
        apply in_flat_map. exists (j, t0). auto.
      + fold r in Hp. rewrite refs_rm_type in Hp. apply in_map_iff in Hp as ((k0, i0) & E & Hq). inversion E; subst.
        right. exists i0. split; [|reflexivity]. unfold all_refs. apply in_or_app; right. apply in_or_app; right. apply in_or_app; left.
        apply in_flat_map. exists (j0, t0). auto.
    - destruct (flat_section refs_manifest (rm_manifest r) r _ _ _ (refs_rm_manifest r) Hin) as [H|((k0, i0) & H & E)].
      + left. unfold all_refs. do 3 (apply in_or_app; right). apply in_or_app. now left.
      + inversion E; subst. right. exists i0. split; [|reflexivity]. unfold all_refs. do 3 (apply in_or_app; right). apply in_or_app. now left.
    - destruct (flat_section refs_element (rm_element r) r _ _ _ (refs_rm_element r) Hin) as [H|((k0, i0) & H & E)].
      + left. unfold all_refs. do 4 (apply in_or_app; right). apply in_or_app. now left.
      + inversion E; subst. right. exists i0. split; [|reflexivity]. unfold all_refs. do 4 (apply in_or_app; right). apply in_or_app. now left.
    - destruct (flat_section refs_makeseq (rm_makeseq r) r _ _ _ (refs_rm_makeseq r) Hin) as [H|((k0, i0) & H & E)].
      + left. unfold all_refs. do 5 (apply in_or_app; right). exact H.
      + inversion E; subst. right. exists i0. split; [|reflexivity]. unfold all_refs. do 5 (apply in_or_app; right). exact H. }
  destruct Hsrc as [Ha|(i0 & Hb & ->)].
  - destruct (Ca k i Ha) as [->|Hk]; [now left | right]. apply keys_of_merge. now left.
  - destruct (Cb k i0 Hb) as [->|Hk].
    + left. unfold r. apply in_mapping_false. destruct (in_mapping m 0) eqn:E; [|reflexivity].
      exfalso. apply in_mapping_true in E as (j & Hj & _). apply type_mapping_spec in Hj as [Hj _].
      apply H0. apply (all_keys_in b KT). exact Hj.
    + right. destruct (in_mapping m i0) eqn:E.
      * apply in_mapping_true in E as (j & Hj & Ej). unfold r. rewrite Ej.
        apply type_mapping_spec in Hj as [Hi Hjk].
        assert (k = KT) by (apply (type_key_kind b k i0); assumption). subst k.
        apply keys_of_merge. now left.
      * unfold r. rewrite (in_mapping_false _ _ E). apply keys_of_merge. right. split; [exact Hk | intros _; exact E].
Qed.

(* ---------------- merge_with: which flags survive ---------------- *)
Lemma testbit_one n : Z.testbit 1 n = (n =? 0).
Proof. destruct n as [|p|p]; [reflexivity | destruct p; reflexivity | reflexivity]. Qed.
Lemma testbit_lor_land1 x y n : Z.testbit (Z.lor x (Z.land y 1)) n = Z.testbit x n || (Z.testbit y n && (n =? 0)).
Proof. now rewrite Z.lor_spec, Z.land_spec, testbit_one. Qed.

(* global-ness is the union, and a fully defined definition is never replaced by a forward reference *)
Theorem merge_with_flags this other :
  is_global (fst (merge_with this other)) = is_global this || is_global other /\
  is_fully (fst (merge_with this other)) = is_fully this || is_fully other.
Proof.
  unfold merge_with, is_global, is_fully, F_global_bit, F_fully_bit.
  set (gt := Z.testbit (t_flags this) 0). set (ft := Z.testbit (t_flags this) 13).
  set (go := Z.testbit (t_flags other) 0). set (fo := Z.testbit (t_flags other) 13).
  destruct (ft && (negb fo || negb go)) eqn:Ec; cbn [fst set_flags t_flags]; rewrite !testbit_lor_land1;
    fold gt ft go fo; change (0 =? 0) with true; change (13 =? 0) with false; rewrite ?andb_true_r, ?andb_false_r, ?orb_false_r.
  - split; [reflexivity|]. destruct ft; [reflexivity | discriminate].
  - split; [apply orb_comm|]. destruct ft, fo, go; try reflexivity; discriminate.
Qed.

(* when exactly one side is fully defined, that definition survives whatever the order of loading *)
Theorem merge_with_defined_wins this other :
  is_fully this = true -> is_fully other = false ->
  (exists fl, fst (merge_with this other) = set_flags this fl) /\ (exists fl, fst (merge_with other this) = set_flags this fl).
Proof.
  intros Ht Ho. unfold merge_with. rewrite Ht, Ho. cbn. split; eexists; reflexivity.
Qed.

(* ---------------- index ranges ---------------- *)
Theorem load_one_range next file : NoDup (all_keys file) ->
  all_keys (fst (remap next file)) = zseq next (length (all_keys file)) /\
  snd (remap next file) = next + Z.of_nat (length (all_keys file)).
Proof. apply remap_consecutive. Qed.
