From Coq Require Import ExtrOcamlBasic ExtrOcamlString.
From IV Require Import Common.Int32 C12.Codec C12.Defs C11.Defs C13.Defs.
Extraction Language OCaml.
Extraction "ext.ml" load_all load_file write_file closedb linksb all_keys nodupb.
