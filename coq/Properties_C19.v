(* C19 — property theorems only. *)
From Coq Require Import List Bool Arith.
From IV Require Import C19.Defs C19.Proofs.
Import ListNotations.

(* One channel: for EVERY buffering policy of the stream library, every sequence of << operations and every
   fault point (k-th write(2)/close(2) on the file, or none): if fail() is false after close(), the file
   holds every byte that was written. *)
Theorem c19_no_silent_loss : forall (flush_now : stream -> nat -> bool) (fault : option nat) (ws : list nat),
  bad (write_all flush_now fault ws) = false -> disk (write_all flush_now fault ws) = total ws.
Proof. exact no_silent_loss. Qed.
Print Assumptions c19_no_silent_loss.

(* main(): exit status 0 implies every requested output (-oc, -od, -oh) is complete ... *)
Theorem c19_status_zero_means_complete : forall chs, status chs = 0 -> forall c, In c chs -> ch_complete c = true.
Proof. exact status_reports. Qed.
Print Assumptions c19_status_zero_means_complete.

(* ... i.e. any incomplete output gives a non-zero exit status, for every fault sequence. *)
Theorem c19_reports : forall chs, (exists c, In c chs /\ ch_complete c = false) -> status chs <> 0.
Proof. exact incomplete_nonzero. Qed.
Print Assumptions c19_reports.

(* the pinned code (stream tested only right after open) violated this: witness replayed on the real tool *)
Theorem c19_pinned_main_refuted :
  let c := {| requested := true; open_ok := true; writes := [10; 20]; ch_fault := Some 0; policy := fun _ _ => false |} in
  status_old [c] = 0 /\ ch_complete c = false /\ status [c] = 255.
Proof. exact old_main_refuted. Qed.
Print Assumptions c19_pinned_main_refuted.
