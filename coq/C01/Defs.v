(* C01 — a handle-style wrapper as a small state machine.
   The wrapped C++ function is arbitrary: f : arguments -> world -> result * world.
   A wrapper variant omits the last k parameters (they take their declared defaults), converts every argument on the way in
   (char const * -> std::string for -string, identity otherwise) and the result on the way out; a std::string result is parked in a
   block-scope static holder whose c_str() is returned.  [fixed] = the holder is assigned on every call (repaired code);
   pinned = 'static std::string string_holder = call;', i.e. the call runs on the first invocation only.
   No proofs in this file. *)
From Coq Require Import List Bool Arith ZArith.
Import ListNotations.

Inductive val := VInt (z : Z) | VStr (s : list nat) | VObj (addr : nat).

(* what a NUL-terminated character pointer can carry: the characters before the first 0 *)
Fixpoint cstr (s : list nat) : list nat := match s with [] => [] | c :: r => if Nat.eqb c 0 then [] else c :: cstr r end.
Definition to_wrapper (v : val) : val := match v with VStr s => VStr (cstr s) | _ => v end.    (* std::string -> char const *   (c_str()) *)
Definition to_cxx (v : val) : val := match v with VStr s => VStr (cstr s) | _ => v end.        (* char const * -> std::string(p) *)
Fixpoint nul_free (s : list nat) : bool := match s with [] => true | c :: r => negb (Nat.eqb c 0) && nul_free r end.
Definition val_ok (v : val) : bool := match v with VStr s => nul_free s | _ => true end.

Section Wrapper.
  Variable world : Type.
  Variable f : list val -> world -> val * world.
  Variable defaults : list val.        (* declared defaults of the trailing optional parameters, in declaration order *)
  Variable k : nat.                    (* this variant omits the last k of them *)
  Variable string_result : bool.       (* the result is a std::string parked in the static holder *)

  Definition full_args (args : list val) : list val := map to_cxx args ++ skipn (length defaults - k) defaults.

  (* the C++ call the database entry of this variant names *)
  Definition direct (args : list val) (w : world) : val * world := f (args ++ skipn (length defaults - k) defaults) w.

  (* one invocation of the wrapper: holder (the static), world  ->  result, holder, world *)
  Definition invoke (fixed : bool) (holder : option val) (args : list val) (w : world) : val * option val * world :=
    if string_result then
      if fixed then let (r, w') := f (full_args args) w in (to_wrapper r, Some r, w')
      else match holder with
           | None => let (r, w') := f (full_args args) w in (to_wrapper r, Some r, w')
           | Some h => (to_wrapper h, Some h, w)             (* the initialiser of a block-scope static does not run again *)
           end
    else let (r, w') := f (full_args args) w in (to_wrapper r, holder, w').

  Fixpoint run_wrapper (fixed : bool) (holder : option val) (calls : list (list val)) (w : world) : list val * world :=
    match calls with
    | [] => ([], w)
    | a :: rest =>
        let '(r, h', w') := invoke fixed holder a w in
        let (rs, w'') := run_wrapper fixed h' rest w' in (r :: rs, w'')
    end.
  Fixpoint run_direct (calls : list (list val)) (w : world) : list val * world :=
    match calls with
    | [] => ([], w)
    | a :: rest => let (r, w') := direct a w in let (rs, w'') := run_direct rest w' in (r :: rs, w'')
    end.
End Wrapper.
