From Coq Require Import List Bool Arith ZArith Lia.
Import ListNotations.
From IV Require Import C01.Defs.

Lemma cstr_nul_free s : nul_free s = true -> cstr s = s.
Proof.
  induction s as [|c r IH]; cbn; [reflexivity|]. destruct (Nat.eqb c 0); cbn; [discriminate|]. intros H. now rewrite IH.
Qed.
Lemma to_cxx_ok v : val_ok v = true -> to_cxx v = v.
Proof. destruct v; cbn; try reflexivity. intros H. now rewrite cstr_nul_free. Qed.
Lemma to_wrapper_ok v : val_ok v = true -> to_wrapper v = v.
Proof. destruct v; cbn; try reflexivity. intros H. now rewrite cstr_nul_free. Qed.
Lemma map_to_cxx_ok args : forallb val_ok args = true -> map to_cxx args = args.
Proof. induction args as [|a r IH]; cbn; [reflexivity|]. intros H. apply andb_true_iff in H. destruct H as [Ha Hr]. now rewrite to_cxx_ok, IH. Qed.

Section Wrapper.
  Variable world : Type.
  Variable f : list val -> world -> val * world.
  Variable defaults : list val.
  Variable k : nat.
  Variable string_result : bool.

  (* every value that crosses is representable (strings without embedded NUL): arguments of every call and every result f produces *)
  Hypothesis results_ok : forall args w, val_ok (fst (f args w)) = true.

  (* the repaired wrapper: for EVERY history of calls, from every world and whatever the static holds, the results and the final world
     are those of the direct C++ calls with the declared defaults for the omitted parameters *)
  Theorem wrapper_equals_direct : forall calls holder w,
    forallb (forallb val_ok) calls = true ->
    run_wrapper world f defaults k string_result true holder calls w = run_direct world f defaults k calls w.
  Proof.
    induction calls as [|a rest IH]; intros holder w Hok; [reflexivity|].
    cbn [forallb] in Hok. apply andb_true_iff in Hok. destruct Hok as [Ha Hrest].
    cbn [run_wrapper run_direct]. unfold invoke, direct, full_args. rewrite (map_to_cxx_ok a Ha).
    pose proof (results_ok (a ++ skipn (length defaults - k) defaults) w) as Hr.
    destruct (f (a ++ skipn (length defaults - k) defaults) w) as [r w'] eqn:E. cbn [fst] in Hr.
    destruct string_result; cbn; rewrite (to_wrapper_ok r Hr), IH by exact Hrest; reflexivity.
  Qed.
End Wrapper.

(* the pinned wrapper returns the first call's value on the second call and does not run the call again *)
Theorem pinned_holder_refuted :
  let f := fun (args : list val) (w : nat) => (match args with VInt z :: _ => VStr [Z.to_nat z] | _ => VStr [] end, S w) in
  run_wrapper nat f [] 0 true false None [[VInt 65]; [VInt 66]] 0 = ([VStr [65]; VStr [65]], 1) /\
  run_direct nat f [] 0 [[VInt 65]; [VInt 66]] 0 = ([VStr [65]; VStr [66]], 2).
Proof. split; reflexivity. Qed.

(* a variant that omits k trailing parameters calls f with exactly the declared defaults for them *)
Theorem variant_uses_declared_defaults world (f : list val -> world -> val * world) defaults k args w :
  direct world f defaults k args w = f (args ++ skipn (length defaults - k) defaults) w.
Proof. reflexivity. Qed.

(* a char const * cannot carry an embedded NUL: the stated representability hypothesis is necessary *)
Theorem embedded_nul_refuted : to_wrapper (VStr [65; 0; 66]) <> VStr [65; 0; 66].
Proof. cbn. discriminate. Qed.
