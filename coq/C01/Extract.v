From Coq Require Import ExtrOcamlBasic ExtrOcamlString List ZArith.
From IV Require Import C01.Defs.
(* the wrapped function as a script: call number w returns the w-th recorded result *)
Definition scripted (results : list val) (args : list val) (w : nat) : val * nat := (nth w results (VInt 0%Z), S w).
Definition predict (fixed string_result : bool) (results : list val) (calls : list (list val)) : list val :=
  fst (run_wrapper nat (scripted results) nil 0 string_result fixed None calls 0).
Extraction Language OCaml.
Extraction "ext.ml" predict.
