(* C12 — property theorems only. *)
From Coq Require Import ZArith List.
From IV Require Import Common.Int32 C12.Codec C12.CodecProofs C12.Defs C12.Proofs.
Import ListNotations.
Local Open Scope Z_scope.

(* Writing a database (current format 3.3) and reading it back yields the same
   database, for ALL strings (any bytes, any length in int range) and all
   int-range field values; wfc = every int field and every length fits int,
   array_size present iff F_array; fixup d = d = constructor/destructor flags
   already set on the functions the types name (as interrogate writes them). *)
Theorem c12_roundtrip : forall ident h d,
  in_int ident = true -> wfc (c_body current_minor) (h, d) -> fixup d = d ->
  load_file ident (write_file ident current_minor h d) = (false, Some (h, d)) /\
  load_file 0 (write_file ident current_minor h d) = (false, Some (h, d)).
Proof. exact roundtrip. Qed.
Print Assumptions c12_roundtrip.

(* ... hence re-serialisation gives identical bytes. *)
Theorem c12_reserialise_identical : forall ident h d h' d',
  in_int ident = true -> wfc (c_body current_minor) (h, d) -> fixup d = d ->
  load_file 0 (write_file ident current_minor h d) = (false, Some (h', d')) ->
  write_file ident current_minor h' d' = write_file ident current_minor h d.
Proof. exact reserialise. Qed.
Print Assumptions c12_reserialise_identical.

(* Files in minor formats 3.0 .. 3.3 load, with zero for the element fields they lack. *)
Theorem c12_old_minor : forall ident minor h d,
  in_int ident = true -> 0 <= minor <= current_minor ->
  wfc (c_body minor) (h, db_defaults minor d) ->
  load_file 0 (write_file ident minor h (db_defaults minor d)) = (false, Some (h, fixup (db_defaults minor d))).
Proof. exact old_minor. Qed.
Print Assumptions c12_old_minor.

(* Another major version, or a newer minor version: error flag, nothing merged,
   whatever the rest of the file contains. *)
Theorem c12_version_gate : forall expected ident major minor body,
  in_int ident = true -> in_int major = true -> in_int minor = true ->
  major <> current_major \/ current_minor < minor ->
  load_file expected (enc (c_int_s nl) ident ++ enc c_int major ++ enc (c_int_s nl) minor ++ body) = (true, None).
Proof. exact version_gate. Qed.
Print Assumptions c12_version_gate.

(* A file-identifier mismatch always raises the error flag. *)
Theorem c12_ident_mismatch : forall expected ident minor h d,
  in_int ident = true -> 0 <= minor <= current_minor -> wfc (c_body minor) (h, d) ->
  expected <> 0 -> ident <> expected ->
  fst (load_file expected (write_file ident minor h d)) = true.
Proof. exact ident_mismatch. Qed.
Print Assumptions c12_ident_mismatch.

(* Each combinator of the reader undoes the corresponding writer, whatever
   follows in the stream (the compositional core of the codec). *)
Theorem c12_body_codec_ok : forall minor, codec_ok (c_body minor).
Proof. exact c_body_ok. Qed.
Print Assumptions c12_body_codec_ok.
