"""Reader for interrogate database (.in) files, format 3.x — an independent
re-implementation of the istream-based readers (see DESIGN.md Annex B).
Works on bytes; strings are returned as latin-1 text so every byte survives."""

TYPE_F_ARRAY = 0x000800  # checked against interrogateType.h at import of a db (see flags())


class ParseError(Exception):
    pass


class Reader:
    def __init__(self, data):
        self.d = data
        self.p = 0

    def ws(self):
        while self.p < len(self.d) and self.d[self.p:self.p + 1] in (b" ", b"\n", b"\t", b"\r", b"\v", b"\f"):
            self.p += 1

    def int(self):
        self.ws()
        st = self.p
        if self.p < len(self.d) and self.d[self.p:self.p + 1] in (b"-", b"+"):
            self.p += 1
        ds = self.p
        while self.p < len(self.d) and self.d[self.p:self.p + 1].isdigit():
            self.p += 1
        if ds == self.p:
            raise ParseError("int expected at %d" % st)
        return int(self.d[st:self.p])

    def str(self):
        n = self.int()
        if n < 0:
            raise ParseError("negative length")
        self.p += 1   # in.get(): one byte skipped whatever it is (also when n == 0)
        if self.p + n > len(self.d) + 1:
            raise ParseError("string past eof")
        s = self.d[self.p:self.p + n]
        self.p += n
        return s.decode("latin-1")

    def vec(self, f):
        n = self.int()
        return [f() for _ in range(n)]


def component(r):
    name = r.str()
    n = r.int()
    alts = [r.str() for _ in range(n)]
    return {"name": name, "alt_names": alts}


def function(r):
    c = component(r)
    c.update(flags=r.int(), cls=r.int(), scoped_name=r.str(), c_wrappers=r.vec(r.int),
             python_wrappers=r.vec(r.int), comment=r.str(), prototype=r.str())
    return c


def wrapper(r):
    c = component(r)
    c.update(flags=r.int(), function=r.int(), return_type=r.int(), return_value_destructor=r.int(),
             unique_name=r.str(), comment=r.str())

    def param():
        return {"name": r.str(), "flags": r.int(), "type": r.int()}
    c["parameters"] = r.vec(param)
    return c


def type_(r, array_flag):
    c = component(r)
    c.update(flags=r.int(), scoped_name=r.str(), true_name=r.str(), outer_class=r.int(),
             atomic_token=r.int(), wrapped_type=r.int())
    c["array_size"] = r.int() if (c["flags"] & array_flag) else None
    c["constructors"] = r.vec(r.int)
    c["destructor"] = r.int()
    c["elements"] = r.vec(r.int)
    c["methods"] = r.vec(r.int)
    c["make_seqs"] = r.vec(r.int)
    c["casts"] = r.vec(r.int)
    c["derivations"] = r.vec(lambda: {"flags": r.int(), "base": r.int(), "upcast": r.int(), "downcast": r.int()})
    c["enum_values"] = r.vec(lambda: {"name": r.str(), "scoped_name": r.str(), "comment": r.str(), "value": r.int()})
    c["nested_types"] = r.vec(r.int)
    c["comment"] = r.str()
    return c


def manifest(r):
    c = component(r)
    c.update(flags=r.int(), int_value=r.int(), type=r.int(), getter=r.int(), definition=r.str())
    return c


def element(r, minor):
    c = component(r)
    c.update(flags=r.int(), type=r.int(), getter=r.int(), setter=r.int())
    for i, (a, b) in enumerate((("has_function", "clear_function"), ("del_function", "length_function"),
                                ("insert_function", "getkey_function")), 1):
        if minor >= i:
            c[a] = r.int()
            c[b] = r.int()
        else:
            c[a] = c[b] = 0
    c.update(scoped_name=r.str(), comment=r.str())
    return c


def make_seq(r):
    c = component(r)
    c.update(length_getter=r.int(), element_getter=r.int(), scoped_name=r.str(), comment=r.str())
    return c


def parse(data, array_flag=0x8000):
    """array_flag: value of InterrogateType::F_array (read from the header by flags())."""
    r = Reader(data)
    db = {"file_identifier": r.int(), "major": r.int(), "minor": r.int()}
    db["library_name"] = r.str()
    db["library_hash_name"] = r.str()
    db["module_name"] = r.str()
    minor = db["minor"]

    def section(f):
        n = r.int()
        out = {}
        for _ in range(n):
            idx = r.int()
            out[idx] = f()
        return out
    db["functions"] = section(lambda: function(r))
    db["wrappers"] = section(lambda: wrapper(r))
    db["types"] = section(lambda: type_(r, array_flag))
    db["manifests"] = section(lambda: manifest(r))
    db["elements"] = section(lambda: element(r, minor))
    db["make_seqs"] = section(lambda: make_seq(r))
    r.ws()
    db["_consumed"] = r.p
    return db


def flags(src_root):
    """Read flag enumerators from the headers of the tree under test (name -> int)."""
    import os
    import re
    out = {}
    for h in ("interrogateType.h", "interrogateFunction.h", "interrogateFunctionWrapper.h",
              "interrogateElement.h", "interrogateManifest.h"):
        t = open(os.path.join(src_root, "src", "interrogatedb", h)).read()
        key = h[len("interrogate"):-2]
        for m in re.finditer(r"\b((?:F|PF|DF)_\w+)\s*=\s*(0x[0-9a-fA-F]+|\d+)", t):
            out[key + "." + m.group(1)] = int(m.group(2), 0)
    return out


def load(path, src_root=None):
    fl = flags(src_root) if src_root else {}
    return parse(open(path, "rb").read(), fl.get("Type.F_array", 0x8000))
