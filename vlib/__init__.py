"""Shared machinery for the /verif checks (see DESIGN.md sections 2 and 3).

build()            scratch build of /repo's current working tree (cached by content hash)
coq_obligations()  compile Properties_<id>.v, parse Print Assumptions
model()            path of the extracted OCaml model driver for a property
Check              evidence writer + violation / known-finding protocol
"""
import fcntl
import hashlib
import json
import os
import random
import re
import shutil
import subprocess
import sys
import time

VERIF = os.path.dirname(os.path.dirname(os.path.abspath(__file__)))
REPO = os.environ.get("VERIF_REPO", "/repo")
SCRATCH = os.environ.get("VERIF_SCRATCH", "/var/tmp/interrogate-verif")
COQ = os.path.join(VERIF, "coq")
GUARD = "INTERROGATE_VERIF"
NCPU = os.cpu_count() or 4


def sh(cmd, **kw):
    kw.setdefault("stdout", subprocess.PIPE)
    kw.setdefault("stderr", subprocess.STDOUT)
    kw.setdefault("text", True)
    return subprocess.run(cmd, **kw)


# ---------------------------------------------------------------------------
# building the code under test

def repo_files():
    out = sh(["git", "-C", REPO, "ls-files", "-co", "--exclude-standard"], stderr=subprocess.DEVNULL).stdout
    files = [f for f in out.splitlines() if f and not f.startswith("_build/")]
    files.sort()
    return files


def repo_hash():
    h = hashlib.sha256()
    for f in repo_files():
        p = os.path.join(REPO, f)
        if not os.path.isfile(p):
            continue
        h.update(f.encode() + b"\0")
        with open(p, "rb") as fh:
            h.update(hashlib.sha256(fh.read()).digest())
    return h.hexdigest()[:16]


class BuildError(Exception):
    pass


SAN_FLAGS = "-O1 -g -fno-omit-frame-pointer -fsanitize=address,bounds,null,vptr,object-size,return,unreachable -fno-sanitize-recover=all"


def build(kind="normal"):
    """Build /repo's working tree under SCRATCH/<hash>/<kind>; returns dict of paths.

    kind: 'normal' (RelWithDebInfo, as the test suite builds it, plus -DINTERROGATE_VERIF)
          'asan'   (address + selected UB sanitizers, -O1)
    """
    os.makedirs(SCRATCH, exist_ok=True)
    lock = open(os.path.join(SCRATCH, ".lock"), "w")
    fcntl.flock(lock, fcntl.LOCK_EX)
    try:
        h = repo_hash()
        root = os.path.join(SCRATCH, h)
        src = os.path.join(root, "src")
        bdir = os.path.join(root, kind)
        stamp = os.path.join(bdir, ".ok")
        if not os.path.exists(stamp):
            # drop every other tree first: disk use stays bounded by one source hash
            for d in os.listdir(SCRATCH):
                if d not in (h, ".lock") and not d.startswith("keep-"):
                    shutil.rmtree(os.path.join(SCRATCH, d), ignore_errors=True)
            os.makedirs(src, exist_ok=True)
            files = repo_files()
            p = subprocess.run(["rsync", "-a", "--delete", "--files-from=-", REPO + "/", src + "/"],
                               input="\n".join(files) + "\n", text=True, stdout=subprocess.PIPE, stderr=subprocess.STDOUT)
            if p.returncode != 0:
                raise BuildError("rsync failed: " + p.stdout[-2000:])
            shutil.rmtree(bdir, ignore_errors=True)
            os.makedirs(bdir)
            if kind == "normal":
                cfg = ["-DCMAKE_BUILD_TYPE=RelWithDebInfo", "-DCMAKE_CXX_FLAGS=-Wno-error -D" + GUARD]
            else:
                cfg = ["-DCMAKE_BUILD_TYPE=None", "-DCMAKE_CXX_FLAGS=-Wno-error -D%s %s" % (GUARD, SAN_FLAGS),
                       "-DCMAKE_EXE_LINKER_FLAGS=-fsanitize=address,undefined",
                       "-DCMAKE_SHARED_LINKER_FLAGS=-fsanitize=address,undefined"]
            p = sh(["cmake", "-G", "Ninja", "-S", src, "-B", bdir, "-DBUILD_SHARED_LIBS=ON",
                    "-DCMAKE_UNITY_BUILD=ON", "-DBUILD_TESTING=OFF"] + cfg)
            if p.returncode != 0:
                raise BuildError("cmake configure failed:\n" + p.stdout[-4000:])
            p = sh(["cmake", "--build", bdir, "-j", str(NCPU)])
            if p.returncode != 0:
                raise BuildError("build failed:\n" + p.stdout[-6000:])
            open(stamp, "w").write(h + "\n")
        return {
            "hash": h, "root": root, "src": src, "build": bdir,
            "bin": os.path.join(bdir, "bin"), "lib": os.path.join(bdir, "lib"),
            "interrogate": os.path.join(bdir, "bin", "interrogate"),
            "interrogate_module": os.path.join(bdir, "bin", "interrogate_module"),
            "parse_file": os.path.join(bdir, "bin", "parse_file"),
            "work": os.path.join(root, "work"),
        }
    finally:
        fcntl.flock(lock, fcntl.LOCK_UN)
        lock.close()


def harness(b, name, sources, extra=(), libs=("interrogatedb",), kind="normal", defines=()):
    """Compile a C++ harness from /verif/harness against build b. Returns path of the executable."""
    out = os.path.join(b["build"], "harness-" + name)
    srcs = [os.path.join(VERIF, "harness", s) for s in sources]
    stamp = out + ".stamp"
    key = hashlib.sha256(("".join(open(s).read() for s in srcs) + repr(extra) + repr(libs) + repr(defines)).encode()).hexdigest()
    if os.path.exists(out) and os.path.exists(stamp) and open(stamp).read() == key:
        return out
    inc = []
    for d in ("dtoolbase", "dtoolutil", "cppparser", "interrogatedb", "interrogate"):
        inc += ["-I", os.path.join(b["src"], "src", d)]
    inc += ["-I", os.path.join(b["build"], "include"), "-I", os.path.join(b["build"], "src", "dtoolbase"), "-I", b["build"]]
    for root, dirs, files in os.walk(b["build"]):
        if "dtool_config.h" in files:
            inc += ["-I", root]
            break
    cmd = ["g++", "-std=gnu++11", "-g", "-O1", "-Wno-deprecated", "-D" + GUARD] + ["-D" + d for d in defines]
    if kind == "asan":
        cmd += SAN_FLAGS.split() + ['-fno-sanitize=vptr']     # the libraries are built without RTTI for some classes
    cmd += inc + srcs + ["-o", out, "-L", b["lib"], "-Wl,-rpath," + b["lib"]]
    for l in libs:
        cmd.append("-l" + l)
    cmd += list(extra)
    p = sh(cmd)
    if p.returncode != 0:
        raise BuildError("harness %s failed to compile:\n%s" % (name, p.stdout[-4000:]))
    open(stamp, "w").write(key)
    return out


# ---------------------------------------------------------------------------
# Coq side

FORBIDDEN = re.compile(r"\b(Admitted|admit|Axiom|Axioms|Parameter|Parameters|Conjecture|Admit Obligations|Unset Guard Checking|bypass_check|type-in-type|impredicative-set|Unset Universe Checking|Unset Positivity Checking)\b")


def _strip_coq_comments(text):
    out = []
    depth = 0
    i = 0
    while i < len(text):
        if text.startswith("(*", i):
            depth += 1
            i += 2
        elif text.startswith("*)", i) and depth > 0:
            depth -= 1
            i += 2
        else:
            if depth == 0:
                out.append(text[i])
            i += 1
    return "".join(out)


def coq_forbidden_scan():
    """grep the whole development (comments stripped) for constructs the brief forbids."""
    hits = []
    for root, dirs, files in os.walk(COQ):
        for f in files:
            if f.endswith(".v"):
                p = os.path.join(root, f)
                txt = _strip_coq_comments(open(p).read())
                for n, line in enumerate(txt.splitlines(), 1):
                    m = FORBIDDEN.search(line)
                    if m:
                        hits.append("%s:%d:%s" % (os.path.relpath(p, COQ), n, m.group(0)))
    return hits


def coq_make(targets, timeout=1500):
    if not os.path.exists(os.path.join(COQ, "Makefile")):
        p = sh(["coq_makefile", "-f", "_CoqProject", "-o", "Makefile"], cwd=COQ)
        if p.returncode != 0:
            return False, p.stdout
    p = sh(["timeout", str(timeout), "make", "-j", str(NCPU)] + list(targets), cwd=COQ)
    return p.returncode == 0, p.stdout


def coq_obligations(prop):
    """(Re)compile Properties_<prop>.v and return list of obligations
    [{theorem, kind, ok, axioms:[...]}], plus the raw log."""
    pv = os.path.join(COQ, "Properties_%s.v" % prop)
    text = open(pv).read()
    names = re.findall(r"^\s*(?:Theorem|Lemma|Corollary)\s+(\w+)", _strip_coq_comments(text), flags=re.M)
    ok, log = coq_make(["Properties_%s.vo" % prop])
    # coq_makefile does not echo Print Assumptions when the .vo is up to date: run coqc directly for the report
    tmpd = os.path.join(VERIF, "work", "coqout-%d" % os.getpid())
    os.makedirs(tmpd, exist_ok=True)
    p = sh(["timeout", "600", "coqc", "-Q", ".", "IV", "-o", os.path.join(tmpd, "Properties_%s.vo" % prop),
            "Properties_%s.v" % prop], cwd=COQ)
    shutil.rmtree(tmpd, ignore_errors=True)
    out = p.stdout
    ok = ok and p.returncode == 0
    obls = []
    # Print Assumptions blocks follow in order of appearance
    blocks = re.split(r"(?m)^(?=Closed under the global context|Axioms:)", out)
    blocks = [b for b in blocks if b.startswith("Closed under") or b.startswith("Axioms:")]
    for i, n in enumerate(names):
        ax = None
        if i < len(blocks):
            b = blocks[i]
            if b.startswith("Closed under"):
                ax = []
            else:
                ax = re.findall(r"(?m)^([A-Za-z_][\w.']*)\s*:", b[len("Axioms:"):])
        kind = "refuted" if n.endswith("_refuted") else ("partial" if "_partial" in n else "full")
        obls.append({"theorem": n, "kind": kind, "ok": ok and ax is not None, "axioms": ax if ax is not None else ["<not checked>"]})
    forb = coq_forbidden_scan()
    if forb:
        ok = False
    return ok, obls, out + ("\nFORBIDDEN: " + "; ".join(forb) if forb else ""), forb


def model(prop):
    """Path of the extracted OCaml model executable for prop (built by setup / on demand)."""
    exe = os.path.join(VERIF, "ocaml", "build", prop.lower(), "ivmodel")
    src_dir = os.path.join(VERIF, "ocaml", prop.lower())
    ext = os.path.join(COQ, prop, "Extract.v")
    newest = max(os.path.getmtime(p) for p in [ext, os.path.join(COQ, prop, "Defs.v")] +
                 [os.path.join(src_dir, f) for f in os.listdir(src_dir)])
    if os.path.exists(exe) and os.path.getmtime(exe) >= newest:
        return exe
    p = sh([os.path.join(VERIF, "bin", "build-model"), prop])
    if p.returncode != 0:
        raise BuildError("model build for %s failed:\n%s" % (prop, p.stdout[-4000:]))
    return exe


def run_model(prop, mode, lines, timeout=600):
    """Feed lines (one case per line) to the extracted model; returns output lines."""
    exe = model(prop)
    p = subprocess.run([exe, mode], input="\n".join(lines) + "\n", text=True,
                       stdout=subprocess.PIPE, stderr=subprocess.PIPE, timeout=timeout)
    if p.returncode != 0:
        raise BuildError("model %s %s crashed: %s" % (prop, mode, p.stderr[-2000:]))
    out = p.stdout.split("\n")
    if out and out[-1] == "":
        out.pop()
    return out


# ---------------------------------------------------------------------------
# the check protocol

def load_known():
    p = os.path.join(VERIF, "known_findings.json")
    if not os.path.exists(p):
        return {"findings": [], "fixed": []}
    return json.load(open(p))


class Check:
    def __init__(self, prop, level="proof"):
        self.prop = prop
        self.level = level
        self.tier = os.environ.get("VERIF_TIER", "quick")
        if "--tier" in sys.argv:
            self.tier = sys.argv[sys.argv.index("--tier") + 1]
        if self.tier not in ("quick", "thorough"):
            self.tier = "quick"
        try:
            self.seed = int(os.environ.get("VERIF_SEED", "1"))
        except ValueError:
            self.seed = 1
        self.rng = random.Random(self.seed * 1000003 + int(prop[1:]))
        self.t0 = time.time()
        self.cov = {"evaluations": 0, "distinct_nontrivial": 0, "rule": "", "samples": [],
                    "obligations": 0, "discharged": 0, "checker_cmd": "", "trusted_base": [],
                    "theorems": [], "streams": {}, "distribution": {}}
        self.assumptions = []
        self.violations = []      # (key, what, replay_path, nofail)
        self.known_hits = {}      # key -> what
        self.known = [f for f in load_known()["findings"] if f["property"] == prop]
        self._distinct = set()
        self.b = None
        os.makedirs(os.path.join(VERIF, "replays"), exist_ok=True)
        os.makedirs(os.path.join(VERIF, "evidence"), exist_ok=True)

    def scale(self, quick, thorough):
        return thorough if self.tier == "thorough" else quick

    # -- stages -------------------------------------------------------------
    def coq(self):
        ok, obls, log, forb = coq_obligations(self.prop)
        self.cov["obligations"] = len(obls)
        self.cov["discharged"] = sum(1 for o in obls if o["ok"])
        self.cov["theorems"] = obls
        self.cov["checker_cmd"] = "make -C coq Properties_%s.vo && coqc -Q . IV Properties_%s.v (Print Assumptions under every theorem)" % (self.prop, self.prop)
        axioms = sorted({a for o in obls for a in o["axioms"]})
        self.cov["trusted_base"] = [
            "Coq 8.16.1 kernel via coqc (full .vo build; vm_compute used for finite sweeps/witnesses; no native_compute)",
            "axioms reported by Print Assumptions: " + (", ".join(axioms) if axioms else "none (closed under the global context)"),
            "extraction: ExtrOcamlBasic + ExtrOcamlString only; Z/N/positive/nat kept as extracted inductives; OCaml 4.13.1 driver",
            "correspondence harness (Python generators/comparators, C++ drivers) ties the hand-written model to /repo by behaviour on generated inputs",
        ]
        if not ok or not obls or any(not o["ok"] for o in obls):
            bad = [o["theorem"] for o in obls if not o["ok"]] or ["<Properties_%s.v>" % self.prop]
            self.violation("proof-broken", "proof obligation no longer checks: " + ", ".join(bad),
                           {"kind": "proof", "theorems": bad, "forbidden": forb, "log_tail": log[-3000:]}, nofail=True)
        return ok

    def build(self, kind="normal"):
        try:
            b = build(kind)
            if kind == "normal":
                self.b = b
            return b
        except BuildError as e:
            self.violation("build", "/repo does not build (%s)" % kind, {"kind": "build", "log_tail": str(e)[-4000:]}, nofail=True)
            self.finish()

    def count(self, n=1):
        self.cov["evaluations"] += n

    def nontrivial(self, key):
        self._distinct.add(key if isinstance(key, (str, int, tuple)) else json.dumps(key, sort_keys=True))

    def sample(self, s, limit=6):
        if len(self.cov["samples"]) < limit:
            self.cov["samples"].append(s)

    def dist(self, key, n=1):
        d = self.cov["distribution"]
        d[key] = d.get(key, 0) + n

    # -- verdicts -----------------------------------------------------------
    def spec_failure(self, key, what, replay):
        """A case where the real code disagrees with the specification.
        key: root-cause key computed by the check's classifier from the (shrunk) input."""
        for f in self.known:
            if f["key"] == key:
                if key not in self.known_hits:
                    self.known_hits[key] = f["what"]
                return "known"
        self.violation(key, what, replay)
        return "new"

    def violation(self, key, what, replay, nofail=False):
        if any(v[0] == key for v in self.violations):
            return
        path = os.path.join(VERIF, "replays", "%s-%s-%d.json" % (self.prop, re.sub(r"[^A-Za-z0-9_.-]", "_", key)[:60], self.seed))
        replay = dict(replay)
        replay.update({"property": self.prop, "key": key, "what": what, "seed": self.seed, "tier": self.tier,
                       "repo_hash": self.b["hash"] if self.b else None})
        json.dump(replay, open(path, "w"), indent=1, default=str)
        self.violations.append((key, what, path, nofail))

    def finish(self):
        self.cov["distinct_nontrivial"] = len(self._distinct)
        ev = {"property_id": self.prop, "tier": self.tier, "seed": self.seed, "level": self.level,
              "coverage": self.cov, "assumptions": self.assumptions,
              "wall_s": round(time.time() - self.t0, 2), "violations": len(self.violations),
              "known_findings_hit": sorted(self.known_hits)}
        json.dump(ev, open(os.path.join(VERIF, "evidence", self.prop + ".json"), "w"), indent=1, default=str)
        for k in sorted(self.known_hits):
            print("KNOWN-FINDING: property=%s %s [%s]" % (self.prop, self.known_hits[k], k))
        # every listed finding gets its line; the ones above were reproduced by this run, the ones below were not reached by its inputs
        for f in self.known:
            if f["key"] not in self.known_hits:
                print("KNOWN-FINDING: property=%s %s [%s] (listed; not reached by the inputs of this %s run)" % (self.prop, f["what"], f["key"], self.tier))
        self.violations.sort(key=lambda v: (v[3], len(v[1])))
        if len(self.violations) > 5:
            print("# %d distinct violation keys; showing the 5 with the shortest description" % len(self.violations))
        for key, what, path, nofail in self.violations[:5]:
            print("# %s: %s" % (key, what[:400]))
            print("VIOLATION property=%s replay=%s%s" % (self.prop, path, " no-failing-input-found" if nofail else ""))
        sys.stdout.flush()
        if self.violations:
            sys.exit(1)
        print("OK property=%s tier=%s evaluations=%d obligations=%d/%d wall=%.1fs" % (
            self.prop, self.tier, self.cov["evaluations"], self.cov["discharged"], self.cov["obligations"], time.time() - self.t0))
        sys.exit(0)


def workdir(b, name):
    d = os.path.join(b["work"], name)
    shutil.rmtree(d, ignore_errors=True)
    os.makedirs(d)
    return d


def shrink(case, candidates, fails, budget=200):
    """Greedy delta debugging: candidates(case) yields smaller variants; fails(variant) -> bool."""
    improved = True
    while improved and budget > 0:
        improved = False
        for c in candidates(case):
            budget -= 1
            if budget <= 0:
                break
            try:
                if fails(c):
                    case = c
                    improved = True
                    break
            except Exception:
                pass
    return case


def gen_includes(b):
    """include flags for compiling interrogate-generated code stand-alone"""
    inc = ["-I", os.path.join(VERIF, "harness", "shims")]
    for d in ("dtoolbase", "dtoolutil", "interrogatedb", "interrogate"):
        inc += ["-I", os.path.join(b["src"], "src", d)]
    return inc
