#!/usr/bin/env python3
"""verif replay <path>: re-run the recorded input of a violation against /repo's current tree."""
import json
import os
import subprocess
import sys

sys.path.insert(0, os.path.dirname(os.path.dirname(os.path.abspath(__file__))))
import vlib


def main():
    r = json.load(open(sys.argv[1]))
    print(json.dumps({k: r[k] for k in r if k not in ('log_tail',)}, indent=1)[:6000])
    if r.get('kind') in ('proof', 'build'):
        print(r.get('log_tail', ''))
        return 1
    b = vlib.build()
    wd = vlib.workdir(b, 'replay')
    for name, content in (r.get('files') or {}).items():
        os.makedirs(os.path.dirname(os.path.join(wd, name)) or wd, exist_ok=True)
        open(os.path.join(wd, name), 'w').write(content)
    if 'header' in r:
        open(os.path.join(wd, 'e.h'), 'w').write(r['header'])
        open(os.path.join(wd, 'h.h'), 'w').write(r['header'])
    cmd = r.get('cmd')
    if cmd:
        argv = cmd.split()
        argv[0] = os.path.join(b['bin'], argv[0]) if os.path.exists(os.path.join(b['bin'], argv[0])) else argv[0]
        p = subprocess.run(argv, cwd=wd, input=(r.get('stdin') or '') + '\n', text=True, stdout=subprocess.PIPE, stderr=subprocess.STDOUT)
        print('--- %s (exit %d)' % (cmd, p.returncode))
        print(p.stdout[-4000:])
        print('--- expected: %s' % (r.get('expected'),))
    return 1


if __name__ == '__main__':
    sys.exit(main())
